#!/usr/bin/env python3
"""Print the catch matrix (markdown) from sensitivity/results.json and seeded/results.json."""
import json, os
V = os.path.dirname(os.path.dirname(os.path.abspath(__file__)))
def load(p):
    return json.load(open(p)) if os.path.exists(p) else []
sens = load(os.path.join(V, "sensitivity", "results.json"))
seed = load(os.path.join(V, "seeded", "results.json"))
print("| seeded change (independent sub-agent) | property | outcome | reported as |")
print("|---|---|---|---|")
for r in seed:
    cls = []
    for pr, c in r.get("checks", {}).items():
        cls += [x.replace("class=", "").split(" count=")[0] for x in c.get("classes", [])[:2]]
    conf = "tests %s; demo %s / %s" % (r.get("pinned_tests_with_patch", "?"), r.get("demo_without_patch", "?"), r.get("demo_with_patch", "?"))
    print("| `%s` | %s | **%s** (%s) | %s |" % (r["id"], r["property"], r["status"], conf, ", ".join("`%s`" % c for c in cls[:3])))
print()
print("| deliberate change (sensitivity/mutants.py) | property | outcome | reported as |")
print("|---|---|---|---|")
for r in sens:
    cls = [x.replace("class=", "").split(" count=")[0] for x in r.get("classes", [])[:2]]
    print("| `%s` | %s | %s | %s |" % (r["id"], r["property"], r["status"].split(" (")[0], ", ".join("`%s`" % c for c in cls)))
