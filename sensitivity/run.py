#!/usr/bin/env python3
"""Sensitivity runner: apply each deliberate property-breaking change to a scratch
git worktree of /repo (outside /repo and /verif), confirm it compiles and passes
the pinned tests, run the property's quick check against the worktree
(VERIF_REPO), and record whether it was reported. Worktrees are removed.

  ./run.py [--only id,id] [--skip-tests] [--jobs N]
Results: sensitivity/results.json
"""
import json, os, subprocess, sys, time, shutil
sys.path.insert(0, os.path.dirname(os.path.abspath(__file__)))
from mutants import M

VERIF = os.path.dirname(os.path.dirname(os.path.abspath(__file__)))
WT_ROOT = "/tmp/crrl-sens"

def sh(cmd, **kw):
    return subprocess.run(cmd, stdout=subprocess.PIPE, stderr=subprocess.STDOUT, text=True, **kw)

def apply(wt, m):
    p = os.path.join(wt, m["file"])
    s = open(p).read()
    cnt = s.count(m["old"])
    if m["n"] is None:
        if cnt != 1:
            return "old text occurs %d times" % cnt
        s = s.replace(m["old"], m["new"])
    else:
        if cnt <= m["n"]:
            return "old text occurs %d times, need occurrence %d" % (cnt, m["n"])
        idx = -1
        for _ in range(m["n"] + 1):
            idx = s.index(m["old"], idx + 1)
        s = s[:idx] + m["new"] + s[idx + len(m["old"]):]
    open(p, "w").write(s)
    return None

def one(m, skip_tests):
    wt = os.path.join(WT_ROOT, m["id"])
    sh(["git", "-C", "/repo", "worktree", "remove", "--force", wt])
    shutil.rmtree(wt, ignore_errors=True)
    os.makedirs(WT_ROOT, exist_ok=True)
    r = sh(["git", "-C", "/repo", "worktree", "add", "--detach", wt, "HEAD"])
    res = {"id": m["id"], "property": m["prop"], "note": m["note"]}
    try:
        err = apply(wt, m)
        if err:
            res["status"] = "PATCH-FAILED: " + err
            return res
        if not skip_tests:
            env = dict(os.environ, CARGO_NET_OFFLINE="true", CARGO_TARGET_DIR=os.path.join(wt, "target-tests"))
            t = sh(["cargo", "test", "--workspace", "--no-fail-fast", "--offline"], cwd=wt, env=env)
            ok = "test result: ok. 120 passed" in t.stdout
            res["pinned_tests_pass"] = ok
            if not ok:
                res["status"] = "FAILS-PINNED-TESTS (not a realistic change)"
                res["tests_tail"] = t.stdout[-600:]
                return res
            shutil.rmtree(os.path.join(wt, "target-tests"), ignore_errors=True)
        t0 = time.time()
        env = dict(os.environ, VERIF_REPO=wt)
        c = sh([os.path.join(VERIF, "check"), m["prop"], "--tier", "quick"], env=env)
        res["check_exit"] = c.returncode
        res["check_wall_s"] = round(time.time() - t0, 1)
        v = [l for l in c.stdout.splitlines() if l.startswith("VIOLATION")]
        cls = [l.strip() for l in c.stdout.splitlines() if l.startswith("  class=")]
        res["violations"] = len(v)
        res["classes"] = cls[:6]
        if c.returncode == 1 and v:
            res["status"] = "DETECTED"
        elif c.returncode == 0:
            res["status"] = "MISSED"
        else:
            res["status"] = "HARNESS-ERROR exit %d" % c.returncode
            res["tail"] = c.stdout[-800:]
    finally:
        sh(["git", "-C", "/repo", "worktree", "remove", "--force", wt])
        shutil.rmtree(wt, ignore_errors=True)
        shutil.rmtree(wt.rstrip("/") + ".verif-out", ignore_errors=True)
    return res

def main():
    a = sys.argv[1:]
    only = None
    if "--only" in a:
        only = a[a.index("--only") + 1].split(",")
    skip = "--skip-tests" in a
    out = os.path.join(VERIF, "sensitivity", "results.json")
    results = {}
    if os.path.exists(out):
        results = {r["id"]: r for r in json.load(open(out))}
    for m in M:
        if only and m["id"] not in only:
            continue
        r = one(m, skip)
        results[m["id"]] = r
        print("%-45s %-4s %s %s" % (m["id"], m["prop"], r["status"], " ".join(r.get("classes", [])[:2])), flush=True)
        json.dump([results[k] for k in sorted(results)], open(out, "w"), indent=1)
    sh(["git", "-C", "/repo", "worktree", "prune"])

if __name__ == "__main__":
    main()
