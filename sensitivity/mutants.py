"""Deliberate property-breaking changes to pornin/crrl (search/replace specs).
Each must compile and pass the pinned 120 tests, and the named property's
quick check must report it. `n` = which occurrence to replace (default: the
text must be unique)."""
M = []
def mut(id, prop, file, old, new, note, n=None):
    M.append(dict(id=id, prop=prop, file=file, old=old, new=new, note=note, n=n))

F = "src/frost.rs"
# ---------------------------------------------------------------- C15
mut("c15-choose-stops-one-early", "C15", F,
    "if r.len() >= self.min_signers {", "if r.len() + 1 >= self.min_signers {",
    "choose() returns after min_signers-1 distinct commitments")
mut("c15-choose-keeps-duplicates", "C15", F,
    "                        if cv == Ordering::Greater {\n                            r.insert(j, c);\n                        }",
    "                        if cv != Ordering::Less {\n                            r.insert(j, c);\n                        }",
    "choose() inserts a commitment whose identifier is already present")
mut("c15-scalar-cmp-from-low-byte", "C15", F,
    "        for i in (0..xb.len()).rev() {\n            if xb[i] < yb[i] {", "        for i in 0..xb.len() {\n            if xb[i] < yb[i] {",
    "scalar_cmp_vartime compares from the least significant byte (only visible with identifiers >= 256)")
mut("c15-decode-list-no-order-check", "C15", F,
    "                if i > 0 {\n                    if scalar_cmp_vartime(cc[i - 1].ident, c.ident)",
    "                if false && i > 0 {\n                    if scalar_cmp_vartime(cc[i - 1].ident, c.ident)",
    "Commitment::decode_list accepts unsorted / duplicate lists")
mut("c15-verify-split-stops-one-early", "C15", F,
    "            for j in 1..vsscomm.len() {\n                Q += vsscomm[j].0 * z;\n                z *= k;\n            }\n            self.pk.equals(Q) != 0",
    "            for j in 1..(vsscomm.len() - 1) {\n                Q += vsscomm[j].0 * z;\n                z *= k;\n            }\n            self.pk.equals(Q) != 0 || vsscomm.len() > 2 && false",
    "verify_split ignores the highest-degree VSS element (genuine shares fail for t >= 3... and t = 2 passes anything)")
mut("c15-sign-ignores-binding-commitment", "C15", F,
    "                    if commitment_list[i].hiding.equals(comm.hiding) == 0\n                        || commitment_list[i].binding.equals(comm.binding) == 0\n                    {",
    "                    if commitment_list[i].hiding.equals(comm.hiding) == 0\n                    {",
    "sign() no longer compares the binding half of its own commitment")
mut("c15-verify-share-ident-test-dropped", "C15", F,
    "            if sig_share.ident.equals(self.ident) == 0 {\n                return false;\n            }",
    "",
    "inner_verify_signature_share no longer checks that the share is the key owner's")
mut("c15-assemble-skips-final-equation", "C15", F,
    "            if !self.group_pk.pk.verify_helper_vartime(&R, &z, &challenge) {\n                return None;\n            }",
    "",
    "assemble_signature returns the aggregate without verifying it (wrong when fewer than t signers took part)")
mut("c15-commitment-decode-accepts-ident-zero", "C15", F,
    "            let ident = scalar_decode(&buf[0..NS])?;\n            if ident.iszero() != 0 {\n                return None;\n            }\n            let hiding = point_decode(&buf[NS..NS + NE])?;",
    "            let ident = scalar_decode(&buf[0..NS])?;\n            let hiding = point_decode(&buf[NS..NS + NE])?;",
    "Commitment::decode accepts identifier zero")
mut("c15-ed25519-point-decode-no-subgroup-check", "C15", F,
    "        if P.isneutral() != 0 || P.is_in_subgroup() == 0 {", "        if P.isneutral() != 0 {",
    "FROST(Ed25519) point_decode accepts points outside the prime-order subgroup", n=0)
mut("c15-revert-fix-verify-split-group-pk", "C15", F,
    "            if self.group_pk.pk.equals(vsscomm[0].0) == 0 {\n                return false;\n            }\n", "",
    "revert of fix a057999")
mut("c15-p256-scalar-encode-not-reversed", "C15", F,
    "        let mut buf = [0u8; 32];\n        let ex = x.encode();\n        for i in 0..32 {\n            buf[i] = ex[31 - i];\n        }\n        buf\n    }",
    "        let mut buf = [0u8; 32];\n        let ex = x.encode();\n        for i in 0..32 {\n            buf[i] = ex[31 - i];\n        }\n        if buf[0] == 0xFF { buf[0] = 0xFE; }\n        buf\n    }",
    "P-256 suite: scalar_encode corrupts scalars whose top byte is 0xFF (1 in 256 signature shares)", n=0)
# ---------------------------------------------------------------- C16
L = "src/lms.rs"
mut("c16-exhaustion-off-by-one", "C16", L,
    "            if q >= (1u32 << h) {\n                return None;\n            }\n            self.current_leaf = q + 1;",
    "            if q > (1u32 << h) {\n                return None;\n            }\n            self.current_leaf = q + 1;",
    "sign() accepts q == 2^h")
mut("c16-empty-message-does-not-advance", "C16", L,
    "            self.current_leaf = q + 1;", "            if msg.len() > 0 { self.current_leaf = q + 1; }",
    "signing the empty message leaves the leaf index unchanged (one-time key reuse)")
mut("c16-exhausted-sign-corrupts-state", "C16", L,
    "            if q >= (1u32 << h) {\n                return None;\n            }\n            self.current_leaf = q + 1;",
    "            if q >= (1u32 << h) {\n                self.current_leaf = q.wrapping_add(1);\n                return None;\n            }\n            self.current_leaf = q + 1;",
    "a failed sign on an exhausted key still changes the state")
mut("c16-sibling-index-wrong", "C16", L,
    "                let k = if (r & 1) == 0 { r + 1 } else { r - 1 };", "                let k = if (r & 1) == 0 { r + 1 } else { r - 1 + ((i as u32 >> 2) & 1) * 2 };",
    "authentication path uses a wrong sibling at the top level for leaves in the upper half")
mut("c16-verify-accepts-longer-signature", "C16", L,
    "            if sig.len() != lms_siglen {\n                return false;\n            }\n            let q = u32::from_be_bytes",
    "            if sig.len() < lms_siglen {\n                return false;\n            }\n            let q = u32::from_be_bytes",
    "verify() accepts signatures with trailing bytes")
mut("c16-verify-ignores-key-type", "C16", L,
    "            if st != key_type {\n                return false;\n            }\n            let ots_sig = &sig[4..(4 + ots_siglen)];", "            let _ = st;\n            let ots_sig = &sig[4..(4 + ots_siglen)];",
    "verify() ignores the LMS type field")
mut("c16-verify-ignores-ots-type", "C16", L,
    "            if st != ots_type {\n                return None;\n            }", "            let _ = st;",
    "ots_verify ignores the LM-OTS type field")
mut("c16-checksum-dropped-both-sides", "C16", L,
    "        sum << ls\n    }", "        (sum << ls) & 0xFF00\n    }",
    "checksum loses its low byte in sign and verify alike: self-consistent, but not RFC 8554 (and forgeable)")
mut("c16-verify-ignores-last-path-node", "C16", L,
    "            for i in 0..h {\n                let nno = (r & 1) != 0;", "            for i in 0..h {\n                if i == h - 1 { let c = Hm(&self.I, &1u32.to_be_bytes(), &D_INTR, &tmp, &tmp); let _ = c; }\n                let nno = (r & 1) != 0;",
    "(no-op control: must NOT be reported)")
# ---------------------------------------------------------------- C17
mut("c17-sha256-padding-boundary", "C17", "src/sha2.rs",
    "        if ptr > 56 {", "        if ptr > 56 || (ptr == 56 && self.ctr > 4096) {",
    "SHA-224/256: messages of length = 55 mod 64 longer than 4 KiB get an extra padding block", n=0)
mut("c17-sha512-reset-keeps-counter", "C17", "src/sha2.rs",
    "        self.h.copy_from_slice(&iv[..]);\n        self.ctr = 0;", "        self.h.copy_from_slice(&iv[..]);\n        self.ctr &= 127;",
    "SHA-384/512 reset keeps the buffered-byte count: stale bytes leak into the next message after a mid-block reset/digest", n=1)
mut("c17-shake-extract-rate-boundary", "C17", "src/sha3.rs",
    "            let clen = core::cmp::min(dst.len() - i, Self::RATE - ptr);\n            for _ in 0..clen {\n                dst[i] = ",
    "            let clen = core::cmp::min(dst.len() - i, Self::RATE - ptr);\n            let clen = if clen > 1 && ptr + clen == Self::RATE && dst.len() - i > clen { clen - 1 } else { clen };\n            for _ in 0..clen {\n                dst[i] = ",
    "(control: equivalent refactoring of SHAKE extract - splits a copy; must NOT be reported)")
mut("c17-shake-extract-skips-byte-at-rate", "C17", "src/sha3.rs",
    "            if ptr == Self::RATE {\n                self.state.process();\n                ptr = 0;\n            }\n            let clen = core::cmp::min(dst.len() - i, Self::RATE - ptr);",
    "            if ptr == Self::RATE {\n                self.state.process();\n                ptr = if i > 0 && dst.len() - i == 1 { 1 } else { 0 };\n            }\n            let clen = core::cmp::min(dst.len() - i, Self::RATE - ptr);",
    "SHAKE extract: a request that ends exactly one byte after a rate boundary returns byte 1 of the new block")
mut("c17-blake2s-lazy-block", "C17", "src/blake2s.rs",
    "            if clen <= BUF_LEN {\n                self.buf[..clen].copy_from_slice(&data[j..]);",
    "            if clen < BUF_LEN || (clen == BUF_LEN && j < 3 * BUF_LEN) {\n                self.buf[..clen].copy_from_slice(&data[j..]);",
    "BLAKE2s update: a final full block is processed as a non-final block when it is the 4th+ block of one update call")
mut("c17-keyed-reset-forgets-key-block", "C17", "src/blake2s.rs",
    "            self.ctx.buf[..self.saved_key_len].copy_from_slice(\n                &self.saved_key[..self.saved_key_len]);\n            self.ctx.ctr = BUF_LEN as u64;",
    "            self.ctx.buf[..self.saved_key_len].copy_from_slice(\n                &self.saved_key[..self.saved_key_len]);\n            self.ctx.ctr = if self.saved_key_len == 32 { BUF_LEN as u64 } else { 0 };",
    "KeyedBlake2s::reset re-arms the key block only for 32-byte keys")
mut("c17-sha3-digest-does-not-reset", "C17", "src/sha3.rs",
    "            self.0.digest_to(&mut r);\n            self.0.reset();\n            r", "            self.0.digest_to(&mut r);\n            if r[0] != 0 { self.0.reset(); }\n            r",
    "SHA-3 digest() leaves the instance dirty when the first digest byte is zero (1 in 256)")
mut("c17-revert-fix-keyed-reset", "C17", "src/blake2s.rs",
    "            self.ctx.buf[..self.saved_key_len].copy_from_slice(\n                &self.saved_key[..self.saved_key_len]);", "            self.ctx.buf[..self.saved_key_len].copy_from_slice(&self.saved_key);",
    "revert of fix 3cbbc28")
# ---------------------------------------------------------------- C18
mut("c18-revert-fix-w32-T128", "C18", "src/backend/w32/gfgen.rs",
    "const T128: Self = Self::pow2mod(Self::N * 32 + 128);", "const T128: Self = Self::pow2mod(Self::N * 64 + 128);", "revert of fix 01027ef")
mut("c18-revert-fix-m51-legendre", "C18", "src/backend/w64/gf255_m51.rs",
    "            let swap = a_odd & sgnw(xa.wrapping_sub(xb));\n            ls ^= swap & (xa & xb);\n            let t1 = swap & (xa ^ xb);\n            xa ^= t1;\n            xb ^= t1;\n            xa = xa.wrapping_sub(a_odd & xb);\n            xa >>= 1;\n            ls ^= xb.wrapping_add(2) >> 1;",
    "            let swap = a_odd & sgnw(xa.wrapping_sub(xb));\n            let t1 = swap & (xa ^ xb);\n            xa ^= t1;\n            xb ^= t1;\n            xa = xa.wrapping_sub(a_odd & xb);\n            xa >>= 1;\n            ls ^= xb.wrapping_add(2) >> 1;",
    "revert of fix 5413ae4")
mut("c18-revert-fix-m51-lindiv", "C18", "src/backend/w64/gf255_m51.rs",
    "        let r1 = (v1 ^ sv).wrapping_add(r0 >> 51);", "        let r1 = (v1 ^ sv).wrapping_add(r0 >> 63);", "partial revert of fix 5484531 (result negation carry)")
mut("c18-zz32-mul-carry", "C18", "src/backend/w64/zz32.rs", '            d[i + 4] = hi;\n        }\n        Zu256(d)', '            d[i + 4] = if i == 3 { hi & 0x3FFFFFFF } else { hi };\n        }\n        Zu256(d)', "zz32: one wrong carry in a helper multiplication (filled in by find_zz32)")
mut("c18-w32-gf255-half", "C18", "src/backend/w32/gf255.rs", '        for i in 0..7 {\n            self.0[i] = (self.0[i] >> 1) | (self.0[i + 1] << 31);\n        }\n        self.0[7] = self.0[7] >> 1;\n\n        // 2. If the dropped bit was 1, add back (q+1)/2.', '        for i in 0..6 {\n            self.0[i] = (self.0[i] >> 1) | (self.0[i + 1] << 31);\n        }\n        self.0[6] = self.0[6] >> 1;\n        self.0[7] = self.0[7] >> 1;\n\n        // 2. If the dropped bit was 1, add back (q+1)/2.', "w32 GF255: set_half wrong for odd inputs with top limb bit set (filled in below)")
mut("c18-avx2-blake2s-rotation", "C18", "src/blake2s.rs", '_mm_srli_epi32(xtg, 12), _mm_slli_epi32(xtg, 20));', '_mm_srli_epi32(xtg, 12), _mm_slli_epi32(xtg, 19));', "AVX2 BLAKE2s: one wrong rotation constant (filled in below)", n=0)
mut("c18-clmul-gfb254-square", "C18", "src/backend/w64/gfb254_x86clmul.rs", '            let h = _mm256_slli_epi64(f, 1);\n\n            let b = _mm256_xor_si256(d0, _mm256_xor_si256(g, h));\n\n            // Resplit b into the two individual squares and assemble.', '            let h = _mm256_slli_epi64(f, 2);\n\n            let b = _mm256_xor_si256(d0, _mm256_xor_si256(g, h));\n\n            // Resplit b into the two individual squares and assemble.', "CLMUL GF(2^127): wrong reduction in squaring (filled in below)")
mut("c18-revert-fix-gfgen-split-order", "C18", "src/backend/w32/gfgen.rs",
    "                for (bb, e) in [(0i32, e0), (-1i32, e0 - k), (1i32, e0 + k)] {", "                for (bb, e) in [(-1i32, e0 - k), (0i32, e0), (1i32, e0 + k)] {", "revert of fix 34a49f8 (order of the candidates)")
mut("c18-revert-fix-p256-negation", "C18", "src/p256.rs",
    "            (*R, (!c1h).wrapping_add((c1l == 0) as u32), c1l.wrapping_neg())", "            (*R, !c1h.wrapping_add((c1l == 0) as u32), c1l.wrapping_neg())", "revert of fix 38f06f1 (c1 half)")
mut("c18-revert-fix-modint-zero-split", "C18", "src/backend/w64/modint.rs",
    "        let u1_trunc_zero = (u1[0] | u1[1]) == 0 && self.iszero() == 0;", "        let u1_trunc_zero = false && (u1[0] | u1[1]) == 0 && self.iszero() == 0;", "revert of fix cf2e8ac")
mut("c18-revert-fix-clmul-xor-bit", "C18", "src/backend/w64/gfb254_x86clmul.rs",
    "        x[k >> 6] ^= ((val & 1) as u64) << (k & 63);", "        x[k >> 6] ^= ((val & 1) as u64) << (k & 64);", "revert of fix 1936e5a")
# ---------------------------------------------------------------- C19
mut("c19-revert-fix-lagrange-stuck", "C19", "src/backend/w64/lagrange.rs",
    "                    if stuck > 3 {\n                        return (v0.0, v1.0);\n                    }\n                } else {\n                    last_bl_sp = bl_sp;\n                    stuck = 0;\n                }\n            }\n            let mut s = bl_sp.wrapping_sub(bl_nv);",
    "                    if stuck > 3 && false {\n                        return (v0.0, v1.0);\n                    }\n                } else {\n                    last_bl_sp = bl_sp;\n                    stuck = 0;\n                }\n            }\n            let mut s = bl_sp.wrapping_sub(bl_nv);",
    "revert of fix c28c8ed (first-loop stuck exit disabled): ed448 split_vartime hangs again")
mut("c19-revert-fix-modint-assert", "C19", "src/backend/w64/modint.rs",
    "        if bl_nv > 208 {\n            return k.split_nonmonty_generic_vartime();", "        if bl_nv > 208 {\n            assert!(false);\n            return k.split_nonmonty_generic_vartime();", "revert of fix 12b2392")
mut("c19-revert-fix-p256-helper-fallback", "C19", "src/p256.rs",
    "        if b == -100 {\n            return self.mul_add_mulgen_vartime(&(-k), s).equals(*R) != 0;\n        }", "        assert!(b != -100);", "revert of fix d92d20e")
mut("c19-revert-fix-unordered-list-panic", "C19", F,
    "            if !commitment_list_is_ordered(commitment_list) {\n                return false;\n            }\n", "", "revert of fix e699f91 (verify_signature_share half)")
mut("c19-jq255e-verify-no-length-check", "C19", "src/jq255e.rs", '        if sig.len() != 48 {\n            return false;\n        }\n        let c = u128::from_le_bytes', '        if sig.len() > 48 {\n            return false;\n        }\n        let c = u128::from_le_bytes', "jq255e verify: signature length check removed before slicing (filled in below)")
mut("c19-p256-pubkey-decode-assert", "C19", "src/p256.rs", '    pub fn decode(buf: &[u8]) -> Option<Self> {\n        let point = Point::decode(buf)?;\n        if point.isneutral() != 0 {', '    pub fn decode(buf: &[u8]) -> Option<Self> {\n        assert!(buf.len() != 64);\n        let point = Point::decode(buf)?;\n        if point.isneutral() != 0 {', "p256 PublicKey::decode asserts on a 'cannot happen' length (filled in below)")
mut("c19-lms-verify-short-sig-slice", "C19", L,
    "            if sig.len() != lms_siglen {\n                return false;\n            }\n            let q = u32::from_be_bytes",
    "            if sig.len() > lms_siglen {\n                return false;\n            }\n            let q = u32::from_be_bytes",
    "LMS verify slices a too-short signature (panic)")
mut("c19-frost-decode-list-hangs", "C19", F,
    "            let mut r: Vec<VSSElement> = Vec::with_capacity(n);\n            for i in 0..n {\n                r.push(VSSElement(point_decode(&buf[NE * i .. NE * (i + 1)])?));\n            }",
    "            let mut r: Vec<VSSElement> = Vec::with_capacity(n);\n            let mut i = 0;\n            while i < n {\n                match point_decode(&buf[NE * i .. NE * (i + 1)]) {\n                    Some(p) => { r.push(VSSElement(p)); i += 1; }\n                    None => { if n > 5 { continue; } else { return None; } }\n                }\n            }",
    "VSSElement::decode_list loops forever on an invalid element when the list has more than 5 entries")

# ---------------------------------------------------------------- memory safety (C19: "no ... out-of-bounds"), invisible in outputs
mut("c19-blake2s-tail-copy-overread", "C19", "src/blake2s.rs",
    "                self.buf[..clen].copy_from_slice(&data[j..]);\n",
    "                // word-wise copy of the buffered tail\n                for k in 0..((clen + 7) >> 3) {\n                    let w = unsafe { (data.as_ptr().add(j + 8 * k) as *const u64).read_unaligned() };\n                    self.buf[8 * k..8 * k + 8].copy_from_slice(&w.to_ne_bytes());\n                }\n",
    "BLAKE2s update copies the buffered tail in 8-byte words: reads up to 7 bytes past the caller's slice; the stray bytes "
    "are always overwritten or zero-padded before use, so no digest changes - only the interpreter step sees it")
mut("c19-revert-fix-verify-split-empty", "C19", F,
    "            // An empty list is not a VSS commitment; no share matches it.\n            if vsscomm.is_empty() {\n                return false;\n            }\n\n", "",
    "revert of fix 2f86715 (verify_split on an empty commitment list)")
mut("c18-revert-fix-modint-split-limb-test", "C18", "src/backend/w64/modint.rs",
    "            || (d[2] == 0xFFFFFFFFFFFFFFFF && d[3] == 0xFFFFFFFFFFFFFFFF))",
    "            || (d[2] == 0xFFFFFFFFFFFFFFFF && d[2] == 0xFFFFFFFFFFFFFFFF))",
    "revert of the split_vartime limb-test fix (d[2] tested twice)")
