#!/usr/bin/env python3
"""Reference digests (CPython hashlib) of LONG messages for the long-stream
scenario of the hash world: message byte i = (i*167 + 13) & 0xFF. Lengths sit
around 2^29 bytes (where the SHA-2 bit-length field crosses 32 bits) and, for
BLAKE2s, around 2^32 bytes (where its 32-bit counter word wraps). Run once,
offline; the output is committed."""
import hashlib, json, time

BLK = bytes((i * 167 + 13) & 0xFF for i in range(256)) * 4096  # 1 MiB, period 256

def feed(h, n):
    full, rest = divmod(n, len(BLK))
    for _ in range(full):
        h.update(BLK)
    h.update(BLK[:rest])
    return h

def key(n):
    return bytes((i * 31 + 5) & 0xFF for i in range(n))

out = []
L29 = 1 << 29
for alg in ["sha224", "sha256", "sha384", "sha512", "sha512_224", "sha512_256", "sha3_256", "sha3_512"]:
    for n in (L29 - 1, L29, L29 + 12345):
        t0 = time.time()
        out.append({"alg": alg, "len": n, "digest": feed(hashlib.new(alg), n).hexdigest()})
        print(alg, n, round(time.time() - t0, 1), flush=True)
for n in (L29, L29 + 12345):
    out.append({"alg": "shake_128", "len": n, "out_len": 64, "digest": feed(hashlib.shake_128(), n).hexdigest(64)})
    out.append({"alg": "shake_256", "len": n, "out_len": 64, "digest": feed(hashlib.shake_256(), n).hexdigest(64)})
for (k, d) in ((0, 32), (16, 20), (32, 32)):
    for n in (L29 + 12345, (1 << 32) - 1, 1 << 32, (1 << 32) + 100, (1 << 32) + 64):
        t0 = time.time()
        out.append({"alg": "blake2s", "len": n, "key_len": k, "out_len": d,
                    "digest": feed(hashlib.blake2s(key=key(k), digest_size=d), n).hexdigest()})
        print("blake2s", k, d, n, round(time.time() - t0, 1), flush=True)
json.dump(out, open("long_vectors.json", "w"), indent=0)
print(len(out), "vectors")
