#!/usr/bin/env python3
"""One-time, offline validation (big-integer arithmetic, no crrl code) that
every encoding listed in sim/src/world/suite.rs::bad_points() really is one
the FROST decoding rules must refuse: wrong length/tag, non-canonical, off
curve, neutral, or outside the prime-order subgroup."""
import re, sys

src = open('/verif/sim/src/world/suite.rs').read()

def sqrt_mod(a, p):
    a %= p
    if a == 0: return 0
    if pow(a, (p - 1) // 2, p) != 1: return None
    if p % 4 == 3:
        return pow(a, (p + 1) // 4, p)
    # Tonelli-Shanks
    q, s = p - 1, 0
    while q % 2 == 0: q //= 2; s += 1
    z = 2
    while pow(z, (p - 1) // 2, p) != p - 1: z += 1
    m, c, t, r = s, pow(z, q, p), pow(a, q, p), pow(a, (q + 1) // 2, p)
    while t != 1:
        i, t2 = 0, t
        while t2 != 1: t2 = t2 * t2 % p; i += 1
        b = pow(c, 1 << (m - i - 1), p)
        m, c = i, b * b % p
        t, r = t * c % p, r * b % p
    return r

# ---------------- twisted Edwards helpers
def ed_add(P, Q, a, d, p):
    x1, y1 = P; x2, y2 = Q
    den1 = (1 + d * x1 * x2 * y1 * y2) % p
    den2 = (1 - d * x1 * x2 * y1 * y2) % p
    x3 = (x1 * y2 + x2 * y1) * pow(den1, -1, p) % p
    y3 = (y1 * y2 - a * x1 * x2) * pow(den2, -1, p) % p
    return (x3, y3)

def ed_mul(k, P, a, d, p):
    R = (0, 1)
    while k:
        if k & 1: R = ed_add(R, P, a, d, p)
        P = ed_add(P, P, a, d, p)
        k >>= 1
    return R

def ed25519_reason(b):
    p = 2**255 - 19; d = (-121665 * pow(121666, -1, p)) % p; L = 2**252 + 27742317777372353535851937790883648493
    if len(b) != 32: return "length"
    v = int.from_bytes(b, 'little'); sign = v >> 255; y = v & (2**255 - 1)
    if y >= p: return "non-canonical y"
    x2 = (y * y - 1) * pow(d * y * y + 1, -1, p) % p
    x = sqrt_mod(x2, p)
    if x is None: return "off curve"
    if x == 0 and sign == 1: return "non-canonical x=0 with sign"
    if x & 1 != sign: x = p - x
    P = (x, y)
    if P == (0, 1): return "neutral"
    if ed_mul(L, P, p - 1, d, p) != (0, 1): return "not in prime-order subgroup"
    return None

def ed448_reason(b):
    p = 2**448 - 2**224 - 1; d = (-39081) % p
    L = 2**446 - 13818066809895115352007386748515426880336692474882178609894547503885
    if len(b) != 57: return "length"
    if b[56] & 0x7f: return "stray bits in last byte"
    sign = b[56] >> 7; y = int.from_bytes(b[:56], 'little')
    if y >= p: return "non-canonical y"
    x2 = (y * y - 1) * pow(d * y * y - 1, -1, p) % p
    x = sqrt_mod(x2, p)
    if x is None: return "off curve"
    if x == 0 and sign == 1: return "non-canonical x=0 with sign"
    if x & 1 != sign: x = p - x
    P = (x, y)
    if P == (0, 1): return "neutral"
    if ed_mul(L, P, 1, d, p) != (0, 1): return "not in prime-order subgroup"
    return None

def ristretto_reason(b):
    # RFC 9496 section 4.3.1
    p = 2**255 - 19; d = (-121665 * pow(121666, -1, p)) % p
    SQRT_M1 = pow(2, (p - 1) // 4, p)
    if len(b) != 32: return "length"
    s = int.from_bytes(b, 'little')
    if s >= p: return "non-canonical s"
    if s & 1: return "negative s"
    if s == 0: return "neutral"
    def is_neg(x): return x % p & 1
    def sqrt_ratio(u, v):
        v3 = v * v % p * v % p; v7 = v3 * v3 % p * v % p
        r = u * v3 % p * pow(u * v7 % p, (p - 5) // 8, p) % p
        check = v * r % p * r % p
        cs = check == u % p; fs = check == (-u) % p; fsi = check == (-u * SQRT_M1) % p
        if fs or fsi: r = r * SQRT_M1 % p
        if is_neg(r): r = (-r) % p
        return (cs or fs), r
    ss = s * s % p; u1 = (1 - ss) % p; u2 = (1 + ss) % p; u2s = u2 * u2 % p
    v = (-(d * u1 % p * u1) - u2s) % p
    ok, invsqrt = sqrt_ratio(1, v * u2s % p)
    den_x = invsqrt * u2 % p; den_y = invsqrt * den_x % p * v % p
    x = 2 * s * den_x % p
    if is_neg(x): x = (-x) % p
    y = u1 * den_y % p; t = x * y % p
    if not ok: return "non-square"
    if is_neg(t): return "negative t"
    if y == 0: return "y = 0"
    return None

def weier_reason(b, p, a, bb):
    if len(b) != 33: return "length"
    if b[0] not in (2, 3): return "tag"
    x = int.from_bytes(b[1:], 'big')
    if x >= p: return "x >= p"
    if sqrt_mod((x**3 + a * x + bb) % p, p) is None: return "off curve"
    return None

P256 = (2**256 - 2**224 + 2**192 + 2**96 - 1, -3, 0x5ac635d8aa3a93e7b3ebbd55769886bc651d06b0cc53b0f63bce3c3e27d2604b)
K256 = (2**256 - 2**32 - 977, 0, 7)

def eval_expr_list(name, reason):
    # extract the bad_points() body for suite `name` and evaluate its byte strings in Python
    i = src.index('impl Suite for %s ' % name)
    j = src.index('fn bad_points()', i)
    k = src.index('\n    }\n', j)
    return src[j:k]

bad = 0
def report(suite, b, r):
    global bad
    print("%-13s %-60s %s" % (suite, b.hex()[:60], r or "!!! VALID ENCODING (must not be listed)"))
    if r is None: bad += 1

# ed25519 / ristretto: hex literals
for suite, fn in (("Ed25519", ed25519_reason), ("Ristretto255", ristretto_reason)):
    body = eval_expr_list(suite, fn)
    for h in re.findall(r'unhex\("([0-9a-f]+)"\)', body):
        report(suite, bytes.fromhex(h), fn(bytes.fromhex(h)))
# ed25519 generator + order-2 point
Bp = bytes.fromhex("5866666666666666666666666666666666666666666666666666666666666666")
p = 2**255 - 19
y = p - int.from_bytes(Bp, 'little')
enc = (y | (1 << 255)).to_bytes(32, 'little')
report("Ed25519", enc, ed25519_reason(enc))
# ed448: rebuild the constructions
n = bytearray(57); n[0] = 1
o2 = bytearray([0xff] * 57); o2[0] = 0xfe; o2[28] = 0xfe; o2[56] = 0
o4a = bytearray(57); o4b = bytearray(57); o4b[56] = 0x80
yp = bytearray([0xff] * 57); yp[28] = 0xfe; yp[56] = 0
big = bytearray([0xff] * 57); big[56] = 0
stray = bytearray(n); stray[56] = 1
for b in (n, o2, o4a, o4b, yp, big, stray):
    report("Ed448", bytes(b), ed448_reason(bytes(b)))
# weierstrass
def wl(tagff, wrongtag, offx):
    a = bytearray([0xff] * 33); a[0] = tagff
    b = bytearray(33); b[0] = wrongtag
    c = bytearray(33); c[0] = 2; c[32] = offx
    return [bytes(33), bytes(a), bytes(b), bytes(c), bytes(1)]
for b in wl(2, 4, 7): report("P256", b, weier_reason(b, *P256))
for b in wl(3, 5, 5): report("Secp256k1", b, weier_reason(b, *K256))
print("bad entries:", bad)
sys.exit(1 if bad else 0)
