#!/usr/bin/env python3
"""Produce hashlib_vectors.json: reference digests from CPython's hashlib
(OpenSSL / HACL* implementations), used once to validate the harness's own
reference hash implementations (sim/src/refimpl). Run offline; the output is
committed, so checks never need Python for this."""
import hashlib, json

def msg(n):
    return bytes((i * 167 + 13) & 0xFF for i in range(n))

def key(n):
    return bytes((i * 31 + 5) & 0xFF for i in range(n))

lens = list(range(0, 301)) + [511, 512, 513, 1023, 1024, 1025, 4095, 4096, 4097, 10000]
fixed = ["sha224", "sha256", "sha384", "sha512", "sha512_224", "sha512_256",
         "sha3_224", "sha3_256", "sha3_384", "sha3_512"]
out = []
for a in fixed:
    for n in lens:
        out.append({"alg": a, "len": n, "digest": hashlib.new(a, msg(n)).hexdigest()})
for a, rate in (("shake_128", 168), ("shake_256", 136)):
    for n in lens:
        ol = [1, 32, rate - 1, rate, rate + 1, 2 * rate + 5][n % 6]
        out.append({"alg": a, "len": n, "out_len": ol, "digest": hashlib.new(a, msg(n)).hexdigest(ol)})
    for n in (0, 1, rate - 1, rate, rate + 1):
        out.append({"alg": a, "len": n, "out_len": 1000, "digest": hashlib.new(a, msg(n)).hexdigest(1000)})
for n in lens:
    k = n % 33
    d = 1 + (n * 5) % 32
    out.append({"alg": "blake2s", "len": n, "key_len": k, "out_len": d,
                "digest": hashlib.blake2s(msg(n), key=key(k), digest_size=d).hexdigest()})
for k in (0, 1, 7, 16, 31, 32):
    for d in range(1, 33):
        for n in (0, 1, 63, 64, 65, 128, 129):
            out.append({"alg": "blake2s", "len": n, "key_len": k, "out_len": d,
                        "digest": hashlib.blake2s(msg(n), key=key(k), digest_size=d).hexdigest()})
with open("hashlib_vectors.json", "w") as f:
    json.dump(out, f, separators=(",", ":"))
print(len(out), "vectors")
