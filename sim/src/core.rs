//! Per-run bookkeeping shared by all engines: event log + digest, fault and
//! probe counters, violations, and the `guard` wrapper that turns a panic in
//! a library call into a recorded observation (the universal invariant).

use crate::util::Digest128;
use std::cell::RefCell;
use std::collections::BTreeMap;
use std::fmt::Write as _;
use std::panic::{catch_unwind, AssertUnwindSafe};
use std::sync::Once;

#[derive(Clone, Debug)]
pub struct Violation {
    /// Property id, e.g. "C15".
    pub prop: &'static str,
    /// Stable class string: `<engine>/<suite-or-alg>/<oracle>[:<site>]`.
    pub class: String,
    pub detail: String,
    /// Global event sequence number at which it was detected.
    pub at_event: u64,
}

#[derive(Default, Clone)]
pub struct Stats {
    pub c: BTreeMap<&'static str, u64>,
}

impl Stats {
    #[inline]
    pub fn inc(&mut self, k: &'static str) {
        *self.c.entry(k).or_insert(0) += 1;
    }
    #[inline]
    pub fn add(&mut self, k: &'static str, n: u64) {
        *self.c.entry(k).or_insert(0) += n;
    }
    pub fn merge(&mut self, o: &Stats) {
        for (k, v) in o.c.iter() {
            *self.c.entry(k).or_insert(0) += v;
        }
    }
    pub fn get(&self, k: &str) -> u64 {
        self.c.iter().find(|(kk, _)| **kk == k).map(|(_, v)| *v).unwrap_or(0)
    }
}

pub struct RunOut {
    /// Human-readable event lines (kept only when `keep_log`).
    pub log: Vec<String>,
    pub keep_log: bool,
    dig: Digest128,
    /// Payload-free schedule signature (event kinds, endpoints, fault kinds).
    sched: Digest128,
    pub events: u64,
    pub stats: Stats,
    pub violations: Vec<Violation>,
    pub sim_time_us: u64,
    /// Faults that fired in this run (any kind).
    pub faults_fired: u64,
    /// Operations that completed (engine-defined: a signature assembled, a
    /// digest compared, a signature released, ...).
    pub ops_completed: u64,
    /// Short description of the run's configuration (for samples).
    pub summary: String,
    /// Engines without faults (the API trace workload) mark their runs as
    /// countable cases explicitly.
    pub force_nontrivial: bool,
    buf: String,
}

impl RunOut {
    pub fn new(keep_log: bool) -> Self {
        Self {
            log: Vec::new(),
            keep_log,
            dig: Digest128::new(),
            sched: Digest128::new(),
            events: 0,
            stats: Stats::default(),
            violations: Vec::new(),
            sim_time_us: 0,
            faults_fired: 0,
            ops_completed: 0,
            summary: String::new(),
            force_nontrivial: false,
            buf: String::new(),
        }
    }
    /// Record one event in the transcript. Returns its sequence number.
    #[inline]
    pub fn ev(&mut self, args: std::fmt::Arguments) -> u64 {
        self.buf.clear();
        let _ = self.buf.write_fmt(args);
        self.dig.update(self.buf.as_bytes());
        self.dig.update(b"\n");
        self.events += 1;
        if self.keep_log {
            self.log.push(format!("#{} t={} {}", self.events, self.sim_time_us, self.buf));
            // debugging aid for runs that do not terminate: CRRL_SIM_STREAM=1 prints events as they happen
            static STREAM: std::sync::OnceLock<bool> = std::sync::OnceLock::new();
            if *STREAM.get_or_init(|| std::env::var("CRRL_SIM_STREAM").is_ok()) {
                eprintln!("#{} t={} {}", self.events, self.sim_time_us, self.buf);
            }
        }
        self.events
    }
    /// Contribute to the payload-free schedule signature.
    #[inline]
    pub fn sched(&mut self, kind: &str, a: u32, b: u32) {
        self.sched.update(kind.as_bytes());
        self.sched.update_u64(((a as u64) << 32) | b as u64);
    }
    #[inline]
    pub fn fault(&mut self, kind: &'static str) {
        self.stats.inc(kind);
        self.faults_fired += 1;
        self.sched.update(kind.as_bytes());
    }
    #[inline]
    pub fn probe(&mut self, kind: &'static str) {
        self.stats.inc(kind);
    }
    pub fn violate(&mut self, prop: &'static str, class: String, detail: String) {
        let at = self.events;
        if self.keep_log {
            self.log.push(format!("!! VIOLATION {} {} :: {}", prop, class, detail));
        }
        // Keep the first occurrence per class in a run.
        if !self.violations.iter().any(|v| v.class == class && v.prop == prop) {
            self.violations.push(Violation { prop, class, detail, at_event: at });
        }
    }
    pub fn digest(&self) -> u128 {
        self.dig.finish()
    }
    pub fn sched_sig(&self) -> u128 {
        self.sched.finish()
    }
    /// Check a status word (must be exactly 0 or 0xFFFFFFFF).
    #[inline]
    pub fn status(&mut self, engine: &str, label: &'static str, w: u32) -> u32 {
        self.stats.inc("status_words_checked");
        if w != 0 && w != 0xFFFF_FFFF {
            self.violate(
                "C19",
                format!("{}/status-word:{}", engine, label),
                format!("status word {:#010x} returned by {}", w, label),
            );
        }
        w
    }
}

thread_local! {
    static IN_GUARD: RefCell<bool> = RefCell::new(false);
    static LAST_PANIC: RefCell<String> = RefCell::new(String::new());
}

static HOOK: Once = Once::new();

/// Install a panic hook that is silent (and records the message) while a
/// guarded library call is running, and behaves normally otherwise, so that
/// panics in harness code are loud and fatal.
pub fn install_panic_hook() {
    HOOK.call_once(|| {
        let default = std::panic::take_hook();
        std::panic::set_hook(Box::new(move |info| {
            let guarded = IN_GUARD.with(|g| *g.borrow());
            if guarded {
                let msg = if let Some(s) = info.payload().downcast_ref::<&str>() {
                    s.to_string()
                } else if let Some(s) = info.payload().downcast_ref::<String>() {
                    s.clone()
                } else {
                    "<non-string panic>".to_string()
                };
                let loc = info
                    .location()
                    .map(|l| format!("{}:{}", l.file(), l.line()))
                    .unwrap_or_default();
                LAST_PANIC.with(|p| *p.borrow_mut() = format!("{} @ {}", msg, loc));
            } else {
                default(info);
            }
        }));
    });
}

/// Run a library call on externally-derived data. A panic becomes
/// `Err(message)`, counted under `label`.
pub fn guard<T>(out: &mut RunOut, label: &'static str, f: impl FnOnce() -> T) -> Result<T, String> {
    out.stats.inc(label);
    guard_raw(f)
}

/// `guard` without bookkeeping (for callers that hold the `RunOut` inside `f`).
pub fn guard_raw<T>(f: impl FnOnce() -> T) -> Result<T, String> {
    IN_GUARD.with(|g| *g.borrow_mut() = true);
    let r = catch_unwind(AssertUnwindSafe(f));
    IN_GUARD.with(|g| *g.borrow_mut() = false);
    match r {
        Ok(v) => Ok(v),
        Err(_) => {
            let m = LAST_PANIC.with(|p| p.borrow().clone());
            Err(m)
        }
    }
}

/// `guard`, and a panic is recorded as a C19 violation of class
/// `<engine>/panic:<label>`; the caller gets `None`.
pub fn guard_c19<T>(
    out: &mut RunOut,
    engine: &str,
    label: &'static str,
    ctx: impl FnOnce() -> String,
    f: impl FnOnce() -> T,
) -> Option<T> {
    match guard(out, label, f) {
        Ok(v) => Some(v),
        Err(m) => {
            let c = ctx();
            out.ev(format_args!("PANIC in {} : {}", label, m));
            out.violate(
                "C19",
                format!("{}/panic:{}", engine, label),
                format!("{} panicked: {} ; args: {}", label, m, c),
            );
            None
        }
    }
}
