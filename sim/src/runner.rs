//! Batch runner, tape shrinker and replay files.

use crate::core::{RunOut, Stats, Violation};
use crate::tape::{derive_seed, Tape};
use crate::util::{digest_hex, J};
use std::collections::BTreeMap;
use std::sync::atomic::{AtomicU64, Ordering};
use std::sync::Mutex;
use std::time::{Duration, Instant};

#[derive(Clone, Copy, PartialEq, Eq, Debug)]
pub enum Tier {
    Quick,
    Thorough,
}

impl Tier {
    pub fn name(self) -> &'static str {
        match self {
            Tier::Quick => "quick",
            Tier::Thorough => "thorough",
        }
    }
    pub fn parse(s: &str) -> Option<Tier> {
        match s {
            "quick" => Some(Tier::Quick),
            "thorough" => Some(Tier::Thorough),
            _ => None,
        }
    }
}

pub type EngineFn = fn(&mut Tape, Tier, &mut RunOut);

#[derive(Clone, Copy)]
pub struct Engine {
    pub name: &'static str,
    pub run: EngineFn,
    /// Wall-clock allowance for a single run before it is a hang candidate.
    pub hang_allowance_s: u64,
}

pub struct OneResult {
    pub out: RunOut,
    pub tape: Vec<u64>,
}

pub fn run_search(e: &Engine, tier: Tier, verif_seed: u64, idx: u64, keep_log: bool) -> OneResult {
    let mut t = Tape::search(derive_seed(verif_seed, e.name, idx));
    let mut out = RunOut::new(keep_log);
    (e.run)(&mut t, tier, &mut out);
    OneResult { out, tape: t.rec }
}

pub fn run_replay(e: &Engine, tier: Tier, tape: &[u64], keep_log: bool) -> OneResult {
    let mut t = Tape::replay(tape.to_vec());
    let mut out = RunOut::new(keep_log);
    (e.run)(&mut t, tier, &mut out);
    OneResult { out, tape: t.rec }
}

pub struct Found {
    pub run: u64,
    pub v: Violation,
    pub tape: Vec<u64>,
    pub count: u64,
}

pub struct BatchResult {
    pub runs: u64,
    pub stats: Stats,
    pub digests: Vec<(u64, u128)>,
    pub found: BTreeMap<String, Found>,
    pub sched_sigs: Vec<u64>,
    pub nontrivial_runs: u64,
    pub distinct_nontrivial: u64,
    pub sim_time_us: u128,
    pub events: u128,
    pub wall_s: f64,
    pub samples: Vec<String>,
    pub runs_with_fault: u64,
    pub runs_with_op: u64,
}

struct Shared {
    stats: Stats,
    digests: Vec<(u64, u128)>,
    found: BTreeMap<String, Found>,
    sigs: Vec<u64>,
    nontrivial: u64,
    sim_time_us: u128,
    events: u128,
    samples: Vec<(u64, String)>,
    runs_with_fault: u64,
    runs_with_op: u64,
    done: u64,
}

pub struct BatchCfg {
    pub verif_seed: u64,
    pub start: u64,
    pub runs: u64,
    pub jobs: usize,
    pub tier: Tier,
    pub keep_digests: bool,
    /// Stop pulling new runs after this much wall time (0 = no cap).
    pub max_wall_s: u64,
}

pub fn batch(e: &Engine, cfg: &BatchCfg) -> BatchResult {
    let t0 = Instant::now();
    let next = AtomicU64::new(0);
    let shared = Mutex::new(Shared {
        stats: Stats::default(),
        digests: Vec::new(),
        found: BTreeMap::new(),
        sigs: Vec::new(),
        nontrivial: 0,
        sim_time_us: 0,
        events: 0,
        samples: Vec::new(),
        runs_with_fault: 0,
        runs_with_op: 0,
        done: 0,
    });
    // Hang watchdog: per worker (run index + 1, start instant in ms since t0).
    let jobs = cfg.jobs.max(1);
    let cur: Vec<(AtomicU64, AtomicU64)> = (0..jobs).map(|_| (AtomicU64::new(0), AtomicU64::new(0))).collect();
    let finished = AtomicU64::new(0);
    std::thread::scope(|sc| {
        for w in 0..jobs {
            let next = &next;
            let shared = &shared;
            let cur = &cur;
            let finished = &finished;
            sc.spawn(move || {
                let mut l_stats = Stats::default();
                let mut l_dig: Vec<(u64, u128)> = Vec::new();
                let mut l_sigs: Vec<u64> = Vec::new();
                let mut l_found: Vec<(u64, Violation, Vec<u64>)> = Vec::new();
                let mut l_nontrivial = 0u64;
                let mut l_sim = 0u128;
                let mut l_ev = 0u128;
                let mut l_samples: Vec<(u64, String)> = Vec::new();
                let mut l_wf = 0u64;
                let mut l_wo = 0u64;
                let mut l_done = 0u64;
                loop {
                    let i = next.fetch_add(1, Ordering::Relaxed);
                    if i >= cfg.runs {
                        break;
                    }
                    if cfg.max_wall_s > 0 && t0.elapsed().as_secs() >= cfg.max_wall_s {
                        break;
                    }
                    let idx = cfg.start + i;
                    cur[w].1.store(t0.elapsed().as_millis() as u64, Ordering::Relaxed);
                    cur[w].0.store(idx + 1, Ordering::Relaxed);
                    if cfg!(miri) {
                        // interpreter run (memory-safety oracle): name the run so that an abort can be attributed
                        eprintln!("MIRI-RUN {}", idx);
                    }
                    let r = match std::panic::catch_unwind(std::panic::AssertUnwindSafe(|| run_search(e, cfg.tier, cfg.verif_seed, idx, false))) {
                        Ok(r) => r,
                        Err(_) => {
                            // every library call is supposed to run under a guard that turns a panic into a verdict;
                            // a panic that escapes is a hole in the harness (or a bug of its own) and must not be
                            // mistaken for a hang of the run
                            println!("HARNESS-ERROR: unguarded panic in engine={} seed={} run={} (see stderr)", e.name, cfg.verif_seed, idx);
                            std::process::exit(2);
                        }
                    };
                    cur[w].0.store(0, Ordering::Relaxed);
                    l_done += 1;
                    l_stats.merge(&r.out.stats);
                    if cfg.keep_digests {
                        l_dig.push((idx, r.out.digest()));
                    }
                    l_sim += r.out.sim_time_us as u128;
                    l_ev += r.out.events as u128;
                    if r.out.faults_fired > 0 {
                        l_wf += 1;
                    }
                    if r.out.ops_completed > 0 {
                        l_wo += 1;
                    }
                    if (r.out.faults_fired > 0 || r.out.force_nontrivial) && r.out.ops_completed > 0 {
                        l_nontrivial += 1;
                        l_sigs.push(r.out.sched_sig() as u64);
                    }
                    if l_samples.len() < 2 && !r.out.summary.is_empty() {
                        l_samples.push((idx, r.out.summary.clone()));
                    }
                    for v in r.out.violations.iter() {
                        l_found.push((idx, v.clone(), r.tape.clone()));
                    }
                }
                let mut s = shared.lock().unwrap();
                s.stats.merge(&l_stats);
                s.digests.extend(l_dig);
                s.sigs.extend(l_sigs);
                s.nontrivial += l_nontrivial;
                s.sim_time_us += l_sim;
                s.events += l_ev;
                s.samples.extend(l_samples);
                s.runs_with_fault += l_wf;
                s.runs_with_op += l_wo;
                s.done += l_done;
                for (idx, v, tape) in l_found {
                    let key = format!("{}|{}", v.prop, v.class);
                    match s.found.get_mut(&key) {
                        Some(f) => {
                            f.count += 1;
                            // keep the lowest run index: independent of worker count
                            if idx < f.run {
                                f.run = idx;
                                f.v = v;
                                f.tape = tape;
                            }
                        }
                        None => {
                            s.found.insert(key, Found { run: idx, v, tape, count: 1 });
                        }
                    }
                }
                finished.fetch_add(1, Ordering::SeqCst);
            });
        }
        // watchdog
        let cur = &cur;
        let finished = &finished;
        let noted: Vec<AtomicU64> = (0..jobs).map(|_| AtomicU64::new(0)).collect();
        // under the interpreter everything is two to three orders of magnitude slower
        let allowance_ms = e.hang_allowance_s * 1000 * if cfg!(miri) { 500 } else { 1 };
        let ename = e.name;
        let vseed = cfg.verif_seed;
        sc.spawn(move || loop {
            if finished.load(Ordering::SeqCst) as usize >= jobs {
                break;
            }
            std::thread::sleep(Duration::from_millis(200));
            let now = t0.elapsed().as_millis() as u64;
            for w in 0..jobs {
                let r = cur[w].0.load(Ordering::Relaxed);
                let st = cur[w].1.load(Ordering::Relaxed);
                if r != 0 && now.saturating_sub(st) > 3 * allowance_ms {
                    // A run exceeded three times its allowance: hand over to
                    // the driver, which re-executes that one seed alone before
                    // reporting. (Between 1x and 3x it is only noted: a load
                    // spike must not abort a batch.)
                    println!("HANG-CANDIDATE engine={} seed={} run={}", ename, vseed, r - 1);
                    std::process::exit(3);
                }
                if r != 0 && now.saturating_sub(st) > allowance_ms && noted[w].swap(r, Ordering::Relaxed) != r {
                    println!("SLOW-RUN engine={} seed={} run={} (over {} s; still running)", ename, vseed, r - 1, allowance_ms / 1000);
                }
            }
        });
    });
    let mut s = shared.into_inner().unwrap();
    s.digests.sort();
    s.sigs.sort_unstable();
    s.sigs.dedup();
    s.samples.sort();
    let distinct = s.sigs.len() as u64;
    BatchResult {
        runs: s.done,
        stats: s.stats,
        digests: s.digests,
        found: s.found,
        sched_sigs: s.sigs,
        nontrivial_runs: s.nontrivial,
        distinct_nontrivial: distinct,
        sim_time_us: s.sim_time_us,
        events: s.events,
        wall_s: t0.elapsed().as_secs_f64(),
        samples: s.samples.into_iter().take(4).map(|(i, t)| format!("run {}: {}", i, t)).collect(),
        runs_with_fault: s.runs_with_fault,
        runs_with_op: s.runs_with_op,
    }
}

// ---------------------------------------------------------------- shrink

fn reproduces(e: &Engine, tier: Tier, tape: &[u64], prop: &str, class: &str) -> Option<Vec<u64>> {
    let r = run_replay(e, tier, tape, false);
    if r.out.violations.iter().any(|v| v.prop == prop && v.class == class) {
        // Normalised tape: what the run actually consumed.
        Some(r.tape)
    } else {
        None
    }
}

/// Shrink `tape` while the same violation class persists. Bounded by
/// wall-clock and number of executions. Returns the minimised tape and the
/// number of executions used.
pub fn shrink(e: &Engine, tier: Tier, tape: Vec<u64>, prop: &str, class: &str, budget_s: u64) -> (Vec<u64>, u64) {
    let t0 = Instant::now();
    let mut execs = 0u64;
    let over = |execs: u64| t0.elapsed().as_secs() >= budget_s || execs > 20_000;
    let mut best = match reproduces(e, tier, &tape, prop, class) {
        Some(t) => t,
        None => return (tape, 1),
    };
    execs += 1;
    // trailing zeros carry no information (an exhausted tape yields 0)
    let trim = |v: &mut Vec<u64>| {
        while v.last() == Some(&0) {
            v.pop();
        }
    };
    trim(&mut best);
    let mut improved = true;
    while improved && !over(execs) {
        improved = false;
        // 1. truncate the tail (binary search on the prefix length)
        let (mut lo, mut hi) = (0usize, best.len());
        while lo < hi && !over(execs) {
            let mid = (lo + hi) / 2;
            execs += 1;
            if let Some(mut t) = reproduces(e, tier, &best[..mid], prop, class) {
                trim(&mut t);
                if t.len() < best.len() {
                    improved = true;
                }
                hi = mid.min(t.len());
                best = t;
                if hi > best.len() {
                    hi = best.len();
                }
            } else {
                lo = mid + 1;
            }
        }
        // 2. delete blocks
        let mut size = (best.len() / 2).max(1);
        while size >= 1 && !over(execs) {
            let mut i = 0;
            while i + size <= best.len() && !over(execs) {
                let mut cand = best.clone();
                cand.drain(i..i + size);
                execs += 1;
                if let Some(mut t) = reproduces(e, tier, &cand, prop, class) {
                    trim(&mut t);
                    if t.len() < best.len() || t.iter().sum::<u64>() < best.iter().sum::<u64>() {
                        best = t;
                        improved = true;
                        continue; // same i: the next block slid into place
                    }
                }
                i += size;
            }
            if size == 1 {
                break;
            }
            size /= 2;
        }
        // 3. zero entries ("remove this fault / simplest choice"), then lower them
        let mut i = 0;
        while i < best.len() && !over(execs) {
            if best[i] != 0 {
                for cand_v in [0u64, best[i] / 2, best[i] - 1] {
                    if cand_v >= best[i] {
                        continue;
                    }
                    let mut cand = best.clone();
                    cand[i] = cand_v;
                    execs += 1;
                    if let Some(mut t) = reproduces(e, tier, &cand, prop, class) {
                        trim(&mut t);
                        let better = t.len() < best.len()
                            || (t.len() == best.len() && t.iter().map(|&x| x as u128).sum::<u128>() < best.iter().map(|&x| x as u128).sum::<u128>());
                        if better {
                            best = t;
                            improved = true;
                            break;
                        }
                    }
                    if over(execs) {
                        break;
                    }
                }
            }
            i += 1;
        }
    }
    (best, execs)
}

// ---------------------------------------------------------------- replay files

pub fn write_replay_file(
    path: &str,
    e: &Engine,
    tier: Tier,
    verif_seed: u64,
    run: u64,
    v: &Violation,
    tape: &[u64],
    original_len: usize,
    shrink_execs: u64,
) -> std::io::Result<()> {
    let r = run_replay(e, tier, tape, true);
    let vv = r.out.violations.iter().find(|x| x.prop == v.prop && x.class == v.class).unwrap_or(v);
    let mut j = J::obj();
    j.set("property", J::s(v.prop));
    j.set("engine", J::s(e.name));
    j.set("tier", J::s(tier.name()));
    j.set("class", J::s(&v.class));
    j.set("detail", J::s(&vv.detail));
    j.set("verif_seed", J::u(verif_seed));
    if let Ok(b) = std::env::var("CRRL_SIM_BUILD") {
        // found under a build other than the default one: `./check --replay` must use the same build
        j.set("builds", J::Arr(vec![J::s(&b)]));
    }
    j.set("run_index", J::u(run));
    j.set("original_tape_len", J::u(original_len as u64));
    j.set("shrink_executions", J::u(shrink_execs));
    j.set("digest", J::s(&digest_hex(r.out.digest())));
    j.set("summary", J::s(&r.out.summary));
    j.set("tape", J::Arr(tape.iter().map(|&x| J::u(x)).collect()));
    let mut trace: Vec<J> = r.out.log.iter().map(|l| J::s(l)).collect();
    if trace.len() > 400 {
        let n = trace.len();
        let mut t2: Vec<J> = trace.drain(..150).collect();
        t2.push(J::s(&format!("... {} lines elided ...", n - 400)));
        t2.extend(trace.drain(trace.len() - 250..));
        trace = t2;
    }
    j.set("trace", J::Arr(trace));
    j.set(
        "how_to_replay",
        J::s("/verif/check --replay <this file>   (or: crrl-sim replay <this file> --verbose)"),
    );
    if let Some(dir) = std::path::Path::new(path).parent() {
        std::fs::create_dir_all(dir)?;
    }
    std::fs::write(path, j.to_string() + "\n")
}

pub struct ReplaySpec {
    pub property: String,
    pub engine: String,
    pub tier: Tier,
    pub class: String,
    pub tape: Vec<u64>,
    pub digest: String,
    /// For hang replays: search-mode coordinates instead of a tape.
    pub verif_seed: u64,
    pub run_index: u64,
    pub hang: bool,
}

pub fn read_replay_file(path: &str) -> Result<ReplaySpec, String> {
    let s = std::fs::read_to_string(path).map_err(|e| format!("{}: {}", path, e))?;
    let j = J::parse(&s)?;
    let gs = |k: &str| j.get(k).and_then(|x| x.as_str()).map(|x| x.to_string()).ok_or(format!("missing {}", k));
    let tape = match j.get("tape").and_then(|x| x.as_arr()) {
        Some(a) => a.iter().map(|x| x.as_u64().ok_or("bad tape entry".to_string())).collect::<Result<Vec<_>, _>>()?,
        None => Vec::new(),
    };
    Ok(ReplaySpec {
        property: gs("property")?,
        engine: gs("engine")?,
        tier: Tier::parse(&gs("tier")?).ok_or("bad tier")?,
        class: gs("class")?,
        tape,
        digest: gs("digest").unwrap_or_default(),
        verif_seed: j.get("verif_seed").and_then(|x| x.as_u64()).unwrap_or(0),
        run_index: j.get("run_index").and_then(|x| x.as_u64()).unwrap_or(0),
        hang: matches!(j.get("hang"), Some(J::Bool(true))),
    })
}
