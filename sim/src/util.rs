//! Small helpers: hex, a 128-bit streaming digest for event logs, and a
//! minimal JSON value type (writer + parser) so the harness has no external
//! dependencies.

use std::collections::BTreeMap;
use std::fmt::Write as _;

pub fn hex(b: &[u8]) -> String {
    let mut s = String::with_capacity(b.len() * 2);
    for x in b {
        let _ = write!(s, "{:02x}", x);
    }
    s
}

/// Abbreviated hex for logs: full when short, otherwise head..tail(len).
pub fn hex_abbrev(b: &[u8]) -> String {
    if b.len() <= 24 {
        hex(b)
    } else {
        format!("{}..{}({}B)", hex(&b[..8]), hex(&b[b.len() - 4..]), b.len())
    }
}

pub fn unhex(s: &str) -> Option<Vec<u8>> {
    let s = s.as_bytes();
    if s.len() % 2 != 0 {
        return None;
    }
    let mut v = Vec::with_capacity(s.len() / 2);
    for i in 0..s.len() / 2 {
        let h = (s[2 * i] as char).to_digit(16)?;
        let l = (s[2 * i + 1] as char).to_digit(16)?;
        v.push((h * 16 + l) as u8);
    }
    Some(v)
}

/// Streaming 128-bit digest (two independent 64-bit multiply-mix lanes).
/// Not cryptographic; used to compare event logs between runs and builds.
#[derive(Clone)]
pub struct Digest128 {
    a: u64,
    b: u64,
    n: u64,
}

impl Digest128 {
    pub fn new() -> Self {
        Self { a: 0xcbf29ce484222325, b: 0x9ae16a3b2f90404f, n: 0 }
    }
    #[inline]
    pub fn update(&mut self, data: &[u8]) {
        for &x in data {
            self.a = (self.a ^ x as u64).wrapping_mul(0x100000001b3);
            self.b = (self.b.rotate_left(5) ^ x as u64).wrapping_mul(0xff51afd7ed558ccd);
        }
        self.n = self.n.wrapping_add(data.len() as u64);
    }
    pub fn update_u64(&mut self, v: u64) {
        self.update(&v.to_le_bytes());
    }
    pub fn finish(&self) -> u128 {
        let mut a = self.a ^ self.n;
        let mut b = self.b ^ self.n.rotate_left(32);
        a ^= a >> 33;
        a = a.wrapping_mul(0xff51afd7ed558ccd);
        a ^= a >> 33;
        b ^= b >> 29;
        b = b.wrapping_mul(0xc4ceb9fe1a85ec53);
        b ^= b >> 32;
        ((a as u128) << 64) | b as u128
    }
}

pub fn digest_hex(d: u128) -> String {
    format!("{:032x}", d)
}

// ------------------------------------------------------------------ JSON

#[derive(Clone, Debug, PartialEq)]
pub enum J {
    Null,
    Bool(bool),
    Int(i128),
    Num(f64),
    Str(String),
    Arr(Vec<J>),
    Obj(BTreeMap<String, J>),
}

impl J {
    pub fn obj() -> J {
        J::Obj(BTreeMap::new())
    }
    pub fn set(&mut self, k: &str, v: J) -> &mut Self {
        if let J::Obj(m) = self {
            m.insert(k.to_string(), v);
        }
        self
    }
    pub fn get(&self, k: &str) -> Option<&J> {
        match self {
            J::Obj(m) => m.get(k),
            _ => None,
        }
    }
    pub fn as_str(&self) -> Option<&str> {
        match self {
            J::Str(s) => Some(s),
            _ => None,
        }
    }
    pub fn as_u64(&self) -> Option<u64> {
        match self {
            J::Int(i) if *i >= 0 => Some(*i as u64),
            _ => None,
        }
    }
    pub fn as_arr(&self) -> Option<&Vec<J>> {
        match self {
            J::Arr(a) => Some(a),
            _ => None,
        }
    }
    pub fn s(x: &str) -> J {
        J::Str(x.to_string())
    }
    pub fn u(x: u64) -> J {
        J::Int(x as i128)
    }
    pub fn write(&self, out: &mut String) {
        match self {
            J::Null => out.push_str("null"),
            J::Bool(b) => out.push_str(if *b { "true" } else { "false" }),
            J::Int(i) => {
                let _ = write!(out, "{}", i);
            }
            J::Num(f) => {
                if f.is_finite() {
                    let _ = write!(out, "{}", f);
                    if f.fract() == 0.0 && !out.ends_with(|c: char| c == 'e' || c == '.') {
                        // keep it a valid JSON number; integers are fine as is
                    }
                } else {
                    out.push_str("null");
                }
            }
            J::Str(s) => write_str(out, s),
            J::Arr(a) => {
                out.push('[');
                for (i, v) in a.iter().enumerate() {
                    if i > 0 {
                        out.push(',');
                    }
                    v.write(out);
                }
                out.push(']');
            }
            J::Obj(m) => {
                out.push('{');
                for (i, (k, v)) in m.iter().enumerate() {
                    if i > 0 {
                        out.push(',');
                    }
                    write_str(out, k);
                    out.push(':');
                    v.write(out);
                }
                out.push('}');
            }
        }
    }
    pub fn to_string(&self) -> String {
        let mut s = String::new();
        self.write(&mut s);
        s
    }
    pub fn parse(s: &str) -> Result<J, String> {
        let b = s.as_bytes();
        let mut p = 0usize;
        let v = parse_val(b, &mut p)?;
        skip_ws(b, &mut p);
        if p != b.len() {
            return Err(format!("trailing data at {}", p));
        }
        Ok(v)
    }
}

fn write_str(out: &mut String, s: &str) {
    out.push('"');
    for c in s.chars() {
        match c {
            '"' => out.push_str("\\\""),
            '\\' => out.push_str("\\\\"),
            '\n' => out.push_str("\\n"),
            '\r' => out.push_str("\\r"),
            '\t' => out.push_str("\\t"),
            c if (c as u32) < 0x20 => {
                let _ = write!(out, "\\u{:04x}", c as u32);
            }
            c => out.push(c),
        }
    }
    out.push('"');
}

fn skip_ws(b: &[u8], p: &mut usize) {
    while *p < b.len() && (b[*p] == b' ' || b[*p] == b'\n' || b[*p] == b'\r' || b[*p] == b'\t') {
        *p += 1;
    }
}

fn parse_val(b: &[u8], p: &mut usize) -> Result<J, String> {
    skip_ws(b, p);
    if *p >= b.len() {
        return Err("eof".into());
    }
    match b[*p] {
        b'{' => {
            *p += 1;
            let mut m = BTreeMap::new();
            skip_ws(b, p);
            if *p < b.len() && b[*p] == b'}' {
                *p += 1;
                return Ok(J::Obj(m));
            }
            loop {
                skip_ws(b, p);
                let k = match parse_val(b, p)? {
                    J::Str(s) => s,
                    _ => return Err("key".into()),
                };
                skip_ws(b, p);
                if *p >= b.len() || b[*p] != b':' {
                    return Err("colon".into());
                }
                *p += 1;
                let v = parse_val(b, p)?;
                m.insert(k, v);
                skip_ws(b, p);
                if *p < b.len() && b[*p] == b',' {
                    *p += 1;
                    continue;
                }
                if *p < b.len() && b[*p] == b'}' {
                    *p += 1;
                    return Ok(J::Obj(m));
                }
                return Err(format!("obj at {}", *p));
            }
        }
        b'[' => {
            *p += 1;
            let mut a = Vec::new();
            skip_ws(b, p);
            if *p < b.len() && b[*p] == b']' {
                *p += 1;
                return Ok(J::Arr(a));
            }
            loop {
                a.push(parse_val(b, p)?);
                skip_ws(b, p);
                if *p < b.len() && b[*p] == b',' {
                    *p += 1;
                    continue;
                }
                if *p < b.len() && b[*p] == b']' {
                    *p += 1;
                    return Ok(J::Arr(a));
                }
                return Err(format!("arr at {}", *p));
            }
        }
        b'"' => {
            *p += 1;
            let mut s = String::new();
            while *p < b.len() {
                let c = b[*p];
                *p += 1;
                match c {
                    b'"' => return Ok(J::Str(s)),
                    b'\\' => {
                        if *p >= b.len() {
                            return Err("esc".into());
                        }
                        let e = b[*p];
                        *p += 1;
                        match e {
                            b'n' => s.push('\n'),
                            b'r' => s.push('\r'),
                            b't' => s.push('\t'),
                            b'b' => s.push('\u{8}'),
                            b'f' => s.push('\u{c}'),
                            b'u' => {
                                if *p + 4 > b.len() {
                                    return Err("u".into());
                                }
                                let h = std::str::from_utf8(&b[*p..*p + 4]).map_err(|_| "u")?;
                                let cp = u32::from_str_radix(h, 16).map_err(|_| "u")?;
                                *p += 4;
                                s.push(char::from_u32(cp).unwrap_or('?'));
                            }
                            x => s.push(x as char),
                        }
                    }
                    _ => {
                        // copy raw UTF-8 bytes
                        let start = *p - 1;
                        let mut end = *p;
                        while end < b.len() && b[end] != b'"' && b[end] != b'\\' {
                            end += 1;
                        }
                        s.push_str(std::str::from_utf8(&b[start..end]).map_err(|_| "utf8")?);
                        *p = end;
                    }
                }
            }
            Err("unterminated string".into())
        }
        b't' if b[*p..].starts_with(b"true") => {
            *p += 4;
            Ok(J::Bool(true))
        }
        b'f' if b[*p..].starts_with(b"false") => {
            *p += 5;
            Ok(J::Bool(false))
        }
        b'n' if b[*p..].starts_with(b"null") => {
            *p += 4;
            Ok(J::Null)
        }
        _ => {
            let st = *p;
            while *p < b.len()
                && (b[*p].is_ascii_digit() || b[*p] == b'-' || b[*p] == b'+' || b[*p] == b'.' || b[*p] == b'e' || b[*p] == b'E')
            {
                *p += 1;
            }
            let t = std::str::from_utf8(&b[st..*p]).map_err(|_| "num")?;
            if t.is_empty() {
                return Err(format!("unexpected byte at {}", st));
            }
            if let Ok(i) = t.parse::<i128>() {
                Ok(J::Int(i))
            } else {
                t.parse::<f64>().map(J::Num).map_err(|_| format!("num {}", t))
            }
        }
    }
}
