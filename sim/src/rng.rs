//! The randomness seam. crrl takes `T: CryptoRng + RngCore` everywhere; the
//! simulator supplies this generator, seeded by one tape draw.

use crate::tape::Xoshiro;
use crrl::{CryptoRng, RngCore, RngError};

pub struct SimRng {
    prng: Xoshiro,
    /// Bytes returned by the previous `fill_bytes` call.
    last: Vec<u8>,
    /// Fault: the next call returns `last` again (VM-snapshot style repeat).
    pub repeat_next: bool,
    /// Number of repeat faults that actually fired.
    pub repeats_fired: u64,
    /// When enabled, every `fill_bytes` output is appended here.
    pub tap: Option<Vec<Vec<u8>>>,
    pub calls: u64,
}

impl SimRng {
    pub fn new(seed: u64) -> Self {
        Self {
            prng: Xoshiro::new(seed ^ 0x5EED_5EED_5EED_5EED),
            last: Vec::new(),
            repeat_next: false,
            repeats_fired: 0,
            tap: None,
            calls: 0,
        }
    }
    pub fn bytes(&mut self, n: usize) -> Vec<u8> {
        let mut v = vec![0u8; n];
        self.fill_bytes(&mut v);
        v
    }
    pub fn u64(&mut self) -> u64 {
        self.prng.next()
    }
    pub fn below(&mut self, n: u64) -> u64 {
        self.prng.next() % n.max(1)
    }
}

impl RngCore for SimRng {
    fn next_u32(&mut self) -> u32 {
        let mut b = [0u8; 4];
        self.fill_bytes(&mut b);
        u32::from_le_bytes(b)
    }
    fn next_u64(&mut self) -> u64 {
        let mut b = [0u8; 8];
        self.fill_bytes(&mut b);
        u64::from_le_bytes(b)
    }
    fn fill_bytes(&mut self, dest: &mut [u8]) {
        self.calls += 1;
        if self.repeat_next && !self.last.is_empty() {
            self.repeat_next = false;
            self.repeats_fired += 1;
            for i in 0..dest.len() {
                dest[i] = self.last[i % self.last.len()];
            }
        } else {
            let mut i = 0;
            while i < dest.len() {
                let w = self.prng.next().to_le_bytes();
                let c = core::cmp::min(8, dest.len() - i);
                dest[i..i + c].copy_from_slice(&w[..c]);
                i += c;
            }
        }
        self.last.clear();
        self.last.extend_from_slice(dest);
        if let Some(t) = self.tap.as_mut() {
            t.push(dest.to_vec());
        }
    }
    fn try_fill_bytes(&mut self, dest: &mut [u8]) -> Result<(), RngError> {
        self.fill_bytes(dest);
        Ok(())
    }
}

impl CryptoRng for SimRng {}
