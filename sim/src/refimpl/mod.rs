//! Reference implementations owned by the harness (oracles).
pub mod blake2s;
pub mod keccak;
pub mod lms;
pub mod sha2;
