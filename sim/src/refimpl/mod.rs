//! Reference implementations owned by the harness (oracles).
pub mod blake2s;
pub mod keccak;
pub mod sha2;
