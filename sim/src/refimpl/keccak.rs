//! Reference Keccak-f[1600] sponge (FIPS 202), written from the standard.
//! Round constants and rotation offsets are *computed* from their
//! definitions (LFSR / the (x,y) walk), not copied from a table.

fn rc_bit(t: usize) -> u64 {
    // rc(t) from FIPS 202 algorithm 5.
    let t = t % 255;
    if t == 0 {
        return 1;
    }
    let mut r: u16 = 1; // R = 10000000 (bit 0 is R[0])
    for _ in 1..=t {
        r <<= 1; // R = 0 || R
        if r & 0x100 != 0 {
            r ^= 0x71; // R[0]^=R[8], R[4]^=R[8], R[5]^=R[8], R[6]^=R[8]
        }
        r &= 0xFF | 0x100;
        r &= 0xFF;
    }
    (r & 1) as u64
}

fn round_constants() -> [u64; 24] {
    let mut rc = [0u64; 24];
    for ir in 0..24 {
        let mut v = 0u64;
        for j in 0..=6 {
            let bit = rc_bit(j + 7 * ir);
            v |= bit << ((1usize << j) - 1);
        }
        rc[ir] = v;
    }
    rc
}

fn rho_offsets() -> [[u32; 5]; 5] {
    // offsets[x][y]
    let mut o = [[0u32; 5]; 5];
    let (mut x, mut y) = (1usize, 0usize);
    for t in 0..24u32 {
        o[x][y] = ((t + 1) * (t + 2) / 2) % 64;
        let nx = y;
        let ny = (2 * x + 3 * y) % 5;
        x = nx;
        y = ny;
    }
    o
}

pub fn keccak_f(a: &mut [u64; 25]) {
    // a[x + 5*y]
    static RC: std::sync::OnceLock<([u64; 24], [[u32; 5]; 5])> = std::sync::OnceLock::new();
    let (rc, rho) = RC.get_or_init(|| (round_constants(), rho_offsets()));
    for ir in 0..24 {
        // theta
        let mut c = [0u64; 5];
        for x in 0..5 {
            c[x] = a[x] ^ a[x + 5] ^ a[x + 10] ^ a[x + 15] ^ a[x + 20];
        }
        for x in 0..5 {
            let d = c[(x + 4) % 5] ^ c[(x + 1) % 5].rotate_left(1);
            for y in 0..5 {
                a[x + 5 * y] ^= d;
            }
        }
        // rho + pi
        let mut b = [0u64; 25];
        for x in 0..5 {
            for y in 0..5 {
                let nx = y;
                let ny = (2 * x + 3 * y) % 5;
                b[nx + 5 * ny] = a[x + 5 * y].rotate_left(rho[x][y]);
            }
        }
        // chi
        for y in 0..5 {
            for x in 0..5 {
                a[x + 5 * y] = b[x + 5 * y] ^ ((!b[(x + 1) % 5 + 5 * y]) & b[(x + 2) % 5 + 5 * y]);
            }
        }
        // iota
        a[0] ^= rc[ir];
    }
}

/// Generic sponge: absorb `msg` with domain suffix `dsuf` (0x06 SHA-3, 0x1F
/// SHAKE), squeeze `outlen` bytes.
pub fn sponge(rate: usize, dsuf: u8, msg: &[u8], outlen: usize) -> Vec<u8> {
    let mut p = msg.to_vec();
    // pad10*1 with the domain bits in the first pad byte
    let padlen = rate - (p.len() % rate);
    let start = p.len();
    p.resize(start + padlen, 0);
    p[start] ^= dsuf;
    let last = p.len() - 1;
    p[last] ^= 0x80;
    let mut a = [0u64; 25];
    for blk in p.chunks(rate) {
        for i in 0..rate {
            a[i / 8] ^= (blk[i] as u64) << (8 * (i % 8));
        }
        keccak_f(&mut a);
    }
    let mut out = Vec::with_capacity(outlen);
    loop {
        for i in 0..rate {
            if out.len() == outlen {
                return out;
            }
            out.push((a[i / 8] >> (8 * (i % 8))) as u8);
        }
        if out.len() == outlen {
            return out;
        }
        keccak_f(&mut a);
    }
}

pub fn sha3_224(m: &[u8]) -> Vec<u8> {
    sponge(144, 0x06, m, 28)
}
pub fn sha3_256(m: &[u8]) -> Vec<u8> {
    sponge(136, 0x06, m, 32)
}
pub fn sha3_384(m: &[u8]) -> Vec<u8> {
    sponge(104, 0x06, m, 48)
}
pub fn sha3_512(m: &[u8]) -> Vec<u8> {
    sponge(72, 0x06, m, 64)
}
pub fn shake128(m: &[u8], outlen: usize) -> Vec<u8> {
    sponge(168, 0x1F, m, outlen)
}
pub fn shake256(m: &[u8], outlen: usize) -> Vec<u8> {
    sponge(136, 0x1F, m, outlen)
}
