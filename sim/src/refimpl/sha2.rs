//! Reference SHA-2 (FIPS 180-4), written from the standard for the harness.
//! One-shot only, no streaming state: it shares no code with crrl.

const K256: [u32; 64] = [
    0x428a2f98, 0x71374491, 0xb5c0fbcf, 0xe9b5dba5, 0x3956c25b, 0x59f111f1, 0x923f82a4, 0xab1c5ed5,
    0xd807aa98, 0x12835b01, 0x243185be, 0x550c7dc3, 0x72be5d74, 0x80deb1fe, 0x9bdc06a7, 0xc19bf174,
    0xe49b69c1, 0xefbe4786, 0x0fc19dc6, 0x240ca1cc, 0x2de92c6f, 0x4a7484aa, 0x5cb0a9dc, 0x76f988da,
    0x983e5152, 0xa831c66d, 0xb00327c8, 0xbf597fc7, 0xc6e00bf3, 0xd5a79147, 0x06ca6351, 0x14292967,
    0x27b70a85, 0x2e1b2138, 0x4d2c6dfc, 0x53380d13, 0x650a7354, 0x766a0abb, 0x81c2c92e, 0x92722c85,
    0xa2bfe8a1, 0xa81a664b, 0xc24b8b70, 0xc76c51a3, 0xd192e819, 0xd6990624, 0xf40e3585, 0x106aa070,
    0x19a4c116, 0x1e376c08, 0x2748774c, 0x34b0bcb5, 0x391c0cb3, 0x4ed8aa4a, 0x5b9cca4f, 0x682e6ff3,
    0x748f82ee, 0x78a5636f, 0x84c87814, 0x8cc70208, 0x90befffa, 0xa4506ceb, 0xbef9a3f7, 0xc67178f2,
];

const K512: [u64; 80] = [
    0x428a2f98d728ae22, 0x7137449123ef65cd, 0xb5c0fbcfec4d3b2f, 0xe9b5dba58189dbbc,
    0x3956c25bf348b538, 0x59f111f1b605d019, 0x923f82a4af194f9b, 0xab1c5ed5da6d8118,
    0xd807aa98a3030242, 0x12835b0145706fbe, 0x243185be4ee4b28c, 0x550c7dc3d5ffb4e2,
    0x72be5d74f27b896f, 0x80deb1fe3b1696b1, 0x9bdc06a725c71235, 0xc19bf174cf692694,
    0xe49b69c19ef14ad2, 0xefbe4786384f25e3, 0x0fc19dc68b8cd5b5, 0x240ca1cc77ac9c65,
    0x2de92c6f592b0275, 0x4a7484aa6ea6e483, 0x5cb0a9dcbd41fbd4, 0x76f988da831153b5,
    0x983e5152ee66dfab, 0xa831c66d2db43210, 0xb00327c898fb213f, 0xbf597fc7beef0ee4,
    0xc6e00bf33da88fc2, 0xd5a79147930aa725, 0x06ca6351e003826f, 0x142929670a0e6e70,
    0x27b70a8546d22ffc, 0x2e1b21385c26c926, 0x4d2c6dfc5ac42aed, 0x53380d139d95b3df,
    0x650a73548baf63de, 0x766a0abb3c77b2a8, 0x81c2c92e47edaee6, 0x92722c851482353b,
    0xa2bfe8a14cf10364, 0xa81a664bbc423001, 0xc24b8b70d0f89791, 0xc76c51a30654be30,
    0xd192e819d6ef5218, 0xd69906245565a910, 0xf40e35855771202a, 0x106aa07032bbd1b8,
    0x19a4c116b8d2d0c8, 0x1e376c085141ab53, 0x2748774cdf8eeb99, 0x34b0bcb5e19b48a8,
    0x391c0cb3c5c95a63, 0x4ed8aa4ae3418acb, 0x5b9cca4f7763e373, 0x682e6ff3d6b2b8a3,
    0x748f82ee5defb2fc, 0x78a5636f43172f60, 0x84c87814a1f0ab72, 0x8cc702081a6439ec,
    0x90befffa23631e28, 0xa4506cebde82bde9, 0xbef9a3f7b2c67915, 0xc67178f2e372532b,
    0xca273eceea26619c, 0xd186b8c721c0c207, 0xeada7dd6cde0eb1e, 0xf57d4f7fee6ed178,
    0x06f067aa72176fba, 0x0a637dc5a2c898a6, 0x113f9804bef90dae, 0x1b710b35131c471b,
    0x28db77f523047d84, 0x32caab7b40c72493, 0x3c9ebe0a15c9bebc, 0x431d67c49c100d4c,
    0x4cc5d4becb3e42b6, 0x597f299cfc657e2a, 0x5fcb6fab3ad6faec, 0x6c44198c4a475817,
];

fn compress256(h: &mut [u32; 8], blk: &[u8]) {
    let mut w = [0u32; 64];
    for t in 0..16 {
        w[t] = u32::from_be_bytes([blk[4 * t], blk[4 * t + 1], blk[4 * t + 2], blk[4 * t + 3]]);
    }
    for t in 16..64 {
        let s0 = w[t - 15].rotate_right(7) ^ w[t - 15].rotate_right(18) ^ (w[t - 15] >> 3);
        let s1 = w[t - 2].rotate_right(17) ^ w[t - 2].rotate_right(19) ^ (w[t - 2] >> 10);
        w[t] = s1.wrapping_add(w[t - 7]).wrapping_add(s0).wrapping_add(w[t - 16]);
    }
    let (mut a, mut b, mut c, mut d, mut e, mut f, mut g, mut hh) =
        (h[0], h[1], h[2], h[3], h[4], h[5], h[6], h[7]);
    for t in 0..64 {
        let big1 = e.rotate_right(6) ^ e.rotate_right(11) ^ e.rotate_right(25);
        let ch = (e & f) ^ ((!e) & g);
        let t1 = hh.wrapping_add(big1).wrapping_add(ch).wrapping_add(K256[t]).wrapping_add(w[t]);
        let big0 = a.rotate_right(2) ^ a.rotate_right(13) ^ a.rotate_right(22);
        let maj = (a & b) ^ (a & c) ^ (b & c);
        let t2 = big0.wrapping_add(maj);
        hh = g;
        g = f;
        f = e;
        e = d.wrapping_add(t1);
        d = c;
        c = b;
        b = a;
        a = t1.wrapping_add(t2);
    }
    h[0] = h[0].wrapping_add(a);
    h[1] = h[1].wrapping_add(b);
    h[2] = h[2].wrapping_add(c);
    h[3] = h[3].wrapping_add(d);
    h[4] = h[4].wrapping_add(e);
    h[5] = h[5].wrapping_add(f);
    h[6] = h[6].wrapping_add(g);
    h[7] = h[7].wrapping_add(hh);
}

fn compress512(h: &mut [u64; 8], blk: &[u8]) {
    let mut w = [0u64; 80];
    for t in 0..16 {
        let mut x = [0u8; 8];
        x.copy_from_slice(&blk[8 * t..8 * t + 8]);
        w[t] = u64::from_be_bytes(x);
    }
    for t in 16..80 {
        let s0 = w[t - 15].rotate_right(1) ^ w[t - 15].rotate_right(8) ^ (w[t - 15] >> 7);
        let s1 = w[t - 2].rotate_right(19) ^ w[t - 2].rotate_right(61) ^ (w[t - 2] >> 6);
        w[t] = s1.wrapping_add(w[t - 7]).wrapping_add(s0).wrapping_add(w[t - 16]);
    }
    let (mut a, mut b, mut c, mut d, mut e, mut f, mut g, mut hh) =
        (h[0], h[1], h[2], h[3], h[4], h[5], h[6], h[7]);
    for t in 0..80 {
        let big1 = e.rotate_right(14) ^ e.rotate_right(18) ^ e.rotate_right(41);
        let ch = (e & f) ^ ((!e) & g);
        let t1 = hh.wrapping_add(big1).wrapping_add(ch).wrapping_add(K512[t]).wrapping_add(w[t]);
        let big0 = a.rotate_right(28) ^ a.rotate_right(34) ^ a.rotate_right(39);
        let maj = (a & b) ^ (a & c) ^ (b & c);
        let t2 = big0.wrapping_add(maj);
        hh = g;
        g = f;
        f = e;
        e = d.wrapping_add(t1);
        d = c;
        c = b;
        b = a;
        a = t1.wrapping_add(t2);
    }
    h[0] = h[0].wrapping_add(a);
    h[1] = h[1].wrapping_add(b);
    h[2] = h[2].wrapping_add(c);
    h[3] = h[3].wrapping_add(d);
    h[4] = h[4].wrapping_add(e);
    h[5] = h[5].wrapping_add(f);
    h[6] = h[6].wrapping_add(g);
    h[7] = h[7].wrapping_add(hh);
}

fn sha_small(iv: [u32; 8], msg: &[u8], outlen: usize) -> Vec<u8> {
    let mut m = msg.to_vec();
    m.push(0x80);
    while m.len() % 64 != 56 {
        m.push(0);
    }
    m.extend_from_slice(&((msg.len() as u64).wrapping_mul(8)).to_be_bytes());
    let mut h = iv;
    for blk in m.chunks(64) {
        compress256(&mut h, blk);
    }
    let mut out = Vec::with_capacity(32);
    for x in h.iter() {
        out.extend_from_slice(&x.to_be_bytes());
    }
    out.truncate(outlen);
    out
}

fn sha_big(iv: [u64; 8], msg: &[u8], outlen: usize) -> Vec<u8> {
    let mut m = msg.to_vec();
    m.push(0x80);
    while m.len() % 128 != 112 {
        m.push(0);
    }
    m.extend_from_slice(&((msg.len() as u128).wrapping_mul(8)).to_be_bytes());
    let mut h = iv;
    for blk in m.chunks(128) {
        compress512(&mut h, blk);
    }
    let mut out = Vec::with_capacity(64);
    for x in h.iter() {
        out.extend_from_slice(&x.to_be_bytes());
    }
    out.truncate(outlen);
    out
}

pub fn sha224(m: &[u8]) -> Vec<u8> {
    sha_small(
        [0xc1059ed8, 0x367cd507, 0x3070dd17, 0xf70e5939, 0xffc00b31, 0x68581511, 0x64f98fa7, 0xbefa4fa4],
        m,
        28,
    )
}
pub fn sha256(m: &[u8]) -> Vec<u8> {
    sha_small(
        [0x6a09e667, 0xbb67ae85, 0x3c6ef372, 0xa54ff53a, 0x510e527f, 0x9b05688c, 0x1f83d9ab, 0x5be0cd19],
        m,
        32,
    )
}
pub fn sha384(m: &[u8]) -> Vec<u8> {
    sha_big(
        [
            0xcbbb9d5dc1059ed8, 0x629a292a367cd507, 0x9159015a3070dd17, 0x152fecd8f70e5939,
            0x67332667ffc00b31, 0x8eb44a8768581511, 0xdb0c2e0d64f98fa7, 0x47b5481dbefa4fa4,
        ],
        m,
        48,
    )
}
pub fn sha512(m: &[u8]) -> Vec<u8> {
    sha_big(
        [
            0x6a09e667f3bcc908, 0xbb67ae8584caa73b, 0x3c6ef372fe94f82b, 0xa54ff53a5f1d36f1,
            0x510e527fade682d1, 0x9b05688c2b3e6c1f, 0x1f83d9abfb41bd6b, 0x5be0cd19137e2179,
        ],
        m,
        64,
    )
}
pub fn sha512_224(m: &[u8]) -> Vec<u8> {
    sha_big(
        [
            0x8c3d37c819544da2, 0x73e1996689dcd4d6, 0x1dfab7ae32ff9c82, 0x679dd514582f9fcf,
            0x0f6d2b697bd44da8, 0x77e36f7304c48942, 0x3f9d85a86a1d36c8, 0x1112e6ad91d692a1,
        ],
        m,
        28,
    )
}
pub fn sha512_256(m: &[u8]) -> Vec<u8> {
    sha_big(
        [
            0x22312194fc2bf72c, 0x9f555fa3c84c64c2, 0x2393b86b6f53b151, 0x963877195940eabd,
            0x96283ee2a88effe3, 0xbe5e1e2553863992, 0x2b0199fc2c85b8aa, 0x0eb72ddc81c52ca2,
        ],
        m,
        32,
    )
}
