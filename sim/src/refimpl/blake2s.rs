//! Reference BLAKE2s (RFC 7693), written from the RFC. One-shot only.

const IV: [u32; 8] = [
    0x6A09E667, 0xBB67AE85, 0x3C6EF372, 0xA54FF53A, 0x510E527F, 0x9B05688C, 0x1F83D9AB, 0x5BE0CD19,
];

const SIGMA: [[usize; 16]; 10] = [
    [0, 1, 2, 3, 4, 5, 6, 7, 8, 9, 10, 11, 12, 13, 14, 15],
    [14, 10, 4, 8, 9, 15, 13, 6, 1, 12, 0, 2, 11, 7, 5, 3],
    [11, 8, 12, 0, 5, 2, 15, 13, 10, 14, 3, 6, 7, 1, 9, 4],
    [7, 9, 3, 1, 13, 12, 11, 14, 2, 6, 5, 10, 4, 0, 15, 8],
    [9, 0, 5, 7, 2, 4, 10, 15, 14, 1, 11, 12, 6, 8, 3, 13],
    [2, 12, 6, 10, 0, 11, 8, 3, 4, 13, 7, 5, 15, 14, 1, 9],
    [12, 5, 1, 15, 14, 13, 4, 10, 0, 7, 6, 3, 9, 2, 8, 11],
    [13, 11, 7, 14, 12, 1, 3, 9, 5, 0, 15, 4, 8, 6, 2, 10],
    [6, 15, 14, 9, 11, 3, 0, 8, 12, 2, 13, 7, 1, 4, 10, 5],
    [10, 2, 8, 4, 7, 6, 1, 5, 15, 11, 9, 14, 3, 12, 13, 0],
];

fn g(v: &mut [u32; 16], a: usize, b: usize, c: usize, d: usize, x: u32, y: u32) {
    v[a] = v[a].wrapping_add(v[b]).wrapping_add(x);
    v[d] = (v[d] ^ v[a]).rotate_right(16);
    v[c] = v[c].wrapping_add(v[d]);
    v[b] = (v[b] ^ v[c]).rotate_right(12);
    v[a] = v[a].wrapping_add(v[b]).wrapping_add(y);
    v[d] = (v[d] ^ v[a]).rotate_right(8);
    v[c] = v[c].wrapping_add(v[d]);
    v[b] = (v[b] ^ v[c]).rotate_right(7);
}

fn compress(h: &mut [u32; 8], blk: &[u8], t: u64, last: bool) {
    let mut m = [0u32; 16];
    for i in 0..16 {
        m[i] = u32::from_le_bytes([blk[4 * i], blk[4 * i + 1], blk[4 * i + 2], blk[4 * i + 3]]);
    }
    let mut v = [0u32; 16];
    v[..8].copy_from_slice(h);
    v[8..].copy_from_slice(&IV);
    v[12] ^= t as u32;
    v[13] ^= (t >> 32) as u32;
    if last {
        v[14] = !v[14];
    }
    for r in 0..10 {
        let s = &SIGMA[r];
        g(&mut v, 0, 4, 8, 12, m[s[0]], m[s[1]]);
        g(&mut v, 1, 5, 9, 13, m[s[2]], m[s[3]]);
        g(&mut v, 2, 6, 10, 14, m[s[4]], m[s[5]]);
        g(&mut v, 3, 7, 11, 15, m[s[6]], m[s[7]]);
        g(&mut v, 0, 5, 10, 15, m[s[8]], m[s[9]]);
        g(&mut v, 1, 6, 11, 12, m[s[10]], m[s[11]]);
        g(&mut v, 2, 7, 8, 13, m[s[12]], m[s[13]]);
        g(&mut v, 3, 4, 9, 14, m[s[14]], m[s[15]]);
    }
    for i in 0..8 {
        h[i] ^= v[i] ^ v[i + 8];
    }
}

/// BLAKE2s(outlen in 1..=32, key of 0..=32 bytes, data).
pub fn blake2s(outlen: usize, key: &[u8], data: &[u8]) -> Vec<u8> {
    assert!(outlen >= 1 && outlen <= 32 && key.len() <= 32);
    let mut h = IV;
    h[0] ^= 0x01010000 ^ ((key.len() as u32) << 8) ^ (outlen as u32);
    let mut input = Vec::with_capacity(64 + data.len());
    if !key.is_empty() {
        input.extend_from_slice(key);
        input.resize(64, 0);
    }
    input.extend_from_slice(data);
    let mut t: u64 = 0;
    if input.is_empty() {
        compress(&mut h, &[0u8; 64], 0, true);
    } else {
        let nblk = (input.len() + 63) / 64;
        for i in 0..nblk {
            let lo = 64 * i;
            let hi = core::cmp::min(lo + 64, input.len());
            let mut blk = [0u8; 64];
            blk[..hi - lo].copy_from_slice(&input[lo..hi]);
            t += (hi - lo) as u64;
            compress(&mut h, &blk, t, i == nblk - 1);
        }
    }
    let mut out = Vec::with_capacity(32);
    for x in h.iter() {
        out.extend_from_slice(&x.to_le_bytes());
    }
    out.truncate(outlen);
    out
}
