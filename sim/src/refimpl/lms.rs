//! Reference LMS / LM-OTS (RFC 8554 + SP 800-208 parameter sets), written
//! from the RFC on the harness's own SHA-256 and SHAKE256. h = 5, w = 8 sets
//! only need apply, but the code is generic in n, m, w, h.

use super::{keccak, sha2};

#[derive(Clone, Copy, Debug)]
pub struct Params {
    pub n: usize,
    pub m: usize,
    pub w: usize,
    pub h: usize,
    pub shake: bool,
    pub lms_type: u32,
    pub ots_type: u32,
}

pub const SHA256_M32_H5: Params = Params { n: 32, m: 32, w: 8, h: 5, shake: false, lms_type: 0x05, ots_type: 0x04 };
pub const SHA256_M24_H5: Params = Params { n: 24, m: 24, w: 8, h: 5, shake: false, lms_type: 0x0a, ots_type: 0x08 };
pub const SHAKE_M32_H5: Params = Params { n: 32, m: 32, w: 8, h: 5, shake: true, lms_type: 0x0f, ots_type: 0x0c };
pub const SHAKE_M24_H5: Params = Params { n: 24, m: 24, w: 8, h: 5, shake: true, lms_type: 0x14, ots_type: 0x10 };

const D_PBLC: [u8; 2] = [0x80, 0x80];
const D_MESG: [u8; 2] = [0x81, 0x81];
const D_LEAF: [u8; 2] = [0x82, 0x82];
const D_INTR: [u8; 2] = [0x83, 0x83];

impl Params {
    fn hash(&self, parts: &[&[u8]], outlen: usize) -> Vec<u8> {
        let mut buf = Vec::new();
        for p in parts {
            buf.extend_from_slice(p);
        }
        if self.shake {
            keccak::shake256(&buf, outlen)
        } else {
            let mut d = sha2::sha256(&buf);
            d.truncate(outlen);
            d
        }
    }
    /// (p, ls) from RFC 8554 appendix B.
    pub fn p_ls(&self) -> (usize, usize) {
        let u = (8 * self.n + self.w - 1) / self.w;
        let x = ((1usize << self.w) - 1) * u;
        // floor(lg(x)) + 1 = bit length of x
        let bits = usize::BITS as usize - x.leading_zeros() as usize;
        let v = (bits + self.w - 1) / self.w;
        (u + v, 16 - v * self.w)
    }
    pub fn sig_len(&self) -> usize {
        let (p, _) = self.p_ls();
        12 + self.n * (p + 1) + self.m * self.h
    }
    fn coef(&self, s: &[u8], i: usize) -> usize {
        let w = self.w;
        ((s[i * w / 8] >> (8 - (w * (i % (8 / w)) + w))) as usize) & ((1 << w) - 1)
    }
    fn cksm(&self, q: &[u8]) -> u16 {
        let (_, ls) = self.p_ls();
        let mut sum: u32 = 0;
        for i in 0..(self.n * 8 / self.w) {
            sum += ((1u32 << self.w) - 1) - self.coef(q, i) as u32;
        }
        ((sum << ls) & 0xFFFF) as u16
    }
    fn chain(&self, id: &[u8], q: u32, i: usize, from: usize, to: usize, start: &[u8]) -> Vec<u8> {
        let mut tmp = start.to_vec();
        for j in from..to {
            tmp = self.hash(&[id, &q.to_be_bytes(), &(i as u16).to_be_bytes(), &[j as u8], &tmp], self.n);
        }
        tmp
    }
    fn ots_x(&self, id: &[u8], seed: &[u8], q: u32, i: usize) -> Vec<u8> {
        self.hash(&[id, &q.to_be_bytes(), &(i as u16).to_be_bytes(), &[0xff], seed], self.n)
    }
    fn ots_pub(&self, id: &[u8], seed: &[u8], q: u32) -> Vec<u8> {
        let (p, _) = self.p_ls();
        let mut ys = Vec::new();
        for i in 0..p {
            let x = self.ots_x(id, seed, q, i);
            ys.extend_from_slice(&self.chain(id, q, i, 0, (1 << self.w) - 1, &x));
        }
        self.hash(&[id, &q.to_be_bytes(), &D_PBLC, &ys], self.n)
    }
}

pub struct RefKey {
    pub prm: Params,
    pub id: Vec<u8>,
    pub seed: Vec<u8>,
    /// T[1..2^(h+1)), T[0] unused.
    pub tree: Vec<Vec<u8>>,
}

impl RefKey {
    pub fn generate(prm: Params, id: &[u8], seed: &[u8]) -> RefKey {
        let leaves = 1usize << prm.h;
        let mut tree = vec![Vec::new(); 2 * leaves];
        for r in leaves..2 * leaves {
            let q = (r - leaves) as u32;
            let k = prm.ots_pub(id, seed, q);
            tree[r] = prm.hash(&[id, &(r as u32).to_be_bytes(), &D_LEAF, &k], prm.m);
        }
        for r in (1..leaves).rev() {
            tree[r] = prm.hash(&[id, &(r as u32).to_be_bytes(), &D_INTR, &tree[2 * r], &tree[2 * r + 1]], prm.m);
        }
        RefKey { prm, id: id.to_vec(), seed: seed.to_vec(), tree }
    }
    pub fn root(&self) -> &[u8] {
        &self.tree[1]
    }
    /// RFC 8554 algorithm 5 with leaf `q` and randomizer `c`.
    pub fn sign(&self, q: u32, c: &[u8], msg: &[u8]) -> Vec<u8> {
        let prm = &self.prm;
        let (p, _) = prm.p_ls();
        let mut sig = Vec::with_capacity(prm.sig_len());
        sig.extend_from_slice(&q.to_be_bytes());
        sig.extend_from_slice(&prm.ots_type.to_be_bytes());
        sig.extend_from_slice(c);
        let qh = prm.hash(&[&self.id, &q.to_be_bytes(), &D_MESG, c, msg], prm.n);
        let mut qc = qh.clone();
        qc.extend_from_slice(&prm.cksm(&qh).to_be_bytes());
        for i in 0..p {
            let a = prm.coef(&qc, i);
            let x = prm.ots_x(&self.id, &self.seed, q, i);
            sig.extend_from_slice(&prm.chain(&self.id, q, i, 0, a, &x));
        }
        sig.extend_from_slice(&prm.lms_type.to_be_bytes());
        let mut r = (1usize << prm.h) + q as usize;
        for _ in 0..prm.h {
            sig.extend_from_slice(&self.tree[r ^ 1]);
            r >>= 1;
        }
        sig
    }
}

/// What a forger who holds one genuine signature can compute from public data: the same signature with
/// Winternitz chain `i` advanced by `steps` further hash steps (the value a verifier would reach later in that
/// chain). A correct verifier must refuse it: the message digits and the checksum pin every chain position.
/// Returns None if the chain is already at its end or the signature is not well formed.
pub fn advance_chain(prm: &Params, id: &[u8], msg: &[u8], sig: &[u8], i: usize, steps: usize) -> Option<Vec<u8>> {
    let (p, _) = prm.p_ls();
    let n = prm.n;
    if sig.len() != prm.sig_len() || i >= p {
        return None;
    }
    let q = u32::from_be_bytes([sig[0], sig[1], sig[2], sig[3]]);
    let c = &sig[8..8 + n];
    let qh = prm.hash(&[id, &q.to_be_bytes(), &D_MESG, c, msg], n);
    let mut qc = qh.clone();
    qc.extend_from_slice(&prm.cksm(&qh).to_be_bytes());
    let a = prm.coef(&qc, i);
    let top = (1usize << prm.w) - 1;
    if a >= top {
        return None;
    }
    let to = (a + steps.max(1)).min(top);
    let off = 8 + n + i * n;
    let y = prm.chain(id, q, i, a, to, &sig[off..off + n]);
    let mut s = sig.to_vec();
    s[off..off + n].copy_from_slice(&y);
    Some(s)
}

/// RFC 8554 algorithm 6a against public key (id, root).
pub fn verify(prm: &Params, id: &[u8], root: &[u8], msg: &[u8], sig: &[u8]) -> bool {
    if sig.len() < 8 {
        return false;
    }
    let q = u32::from_be_bytes([sig[0], sig[1], sig[2], sig[3]]);
    let otstype = u32::from_be_bytes([sig[4], sig[5], sig[6], sig[7]]);
    if otstype != prm.ots_type {
        return false;
    }
    let (p, _) = prm.p_ls();
    let n = prm.n;
    if sig.len() < 12 + n * (p + 1) {
        return false;
    }
    let o = 8 + n * (p + 1);
    let sigtype = u32::from_be_bytes([sig[o], sig[o + 1], sig[o + 2], sig[o + 3]]);
    if sigtype != prm.lms_type {
        return false;
    }
    if q >= (1u32 << prm.h) || sig.len() != 12 + n * (p + 1) + prm.m * prm.h {
        return false;
    }
    // algorithm 4b: candidate OTS public key
    let c = &sig[8..8 + n];
    let qh = prm.hash(&[id, &q.to_be_bytes(), &D_MESG, c, msg], n);
    let mut qc = qh.clone();
    qc.extend_from_slice(&prm.cksm(&qh).to_be_bytes());
    let mut zs = Vec::new();
    for i in 0..p {
        let a = prm.coef(&qc, i);
        let y = &sig[8 + n + i * n..8 + n + (i + 1) * n];
        zs.extend_from_slice(&prm.chain(id, q, i, a, (1 << prm.w) - 1, y));
    }
    let kc = prm.hash(&[id, &q.to_be_bytes(), &D_PBLC, &zs], n);
    let mut node_num = (1u32 << prm.h) + q;
    let mut tmp = prm.hash(&[id, &node_num.to_be_bytes(), &D_LEAF, &kc], prm.m);
    let path = &sig[o + 4..];
    let mut i = 0;
    while node_num > 1 {
        let sib = &path[i * prm.m..(i + 1) * prm.m];
        let parent = node_num / 2;
        tmp = if node_num % 2 == 1 {
            prm.hash(&[id, &parent.to_be_bytes(), &D_INTR, sib, &tmp], prm.m)
        } else {
            prm.hash(&[id, &parent.to_be_bytes(), &D_INTR, &tmp, sib], prm.m)
        };
        node_num = parent;
        i += 1;
    }
    tmp[..] == root[..]
}
