#![allow(dead_code)]
//! crrl-sim: deterministic simulation with fault injection for pornin/crrl.
//!
//! Subcommands (driven by /verif/check):
//!   batch   --engine E [--tier T] [--seed S] [--runs N] [--start I] [--jobs J]
//!           [--out FILE] [--digests-out FILE] [--replay-dir DIR] [--max-wall SECS]
//!           [--shrink-budget SECS] [--no-shrink]
//!   replay  FILE [--verbose]
//!   one     --engine E [--tier T] [--seed S] --run I [--verbose]
//!   selftest --vectors FILE
//!   engines
//!
//! Exit codes: 0 clean, 1 violation found (batch) / reproduced (replay),
//! 2 harness error, 3 hang candidate (batch only; the driver re-executes it).

mod core;
mod des;
mod refimpl;
mod rng;
mod runner;
mod tape;
mod util;
mod world;

use runner::{batch, read_replay_file, run_replay, run_search, shrink, write_replay_file, BatchCfg, Engine, Tier};
use std::collections::BTreeMap;
use util::{digest_hex, J};

pub const DEFAULT_SEED: u64 = 20261002;

fn engines() -> Vec<Engine> {
    world::registry()
}

fn find_engine(name: &str) -> Engine {
    match engines().into_iter().find(|e| e.name == name) {
        Some(e) => e,
        None => {
            eprintln!("unknown engine {}", name);
            std::process::exit(2);
        }
    }
}

struct Args {
    pos: Vec<String>,
    kv: BTreeMap<String, String>,
    flags: Vec<String>,
}

fn parse_args(a: &[String]) -> Args {
    let mut pos = Vec::new();
    let mut kv = BTreeMap::new();
    let mut flags = Vec::new();
    let mut i = 0;
    let valued = [
        "--engine", "--tier", "--seed", "--runs", "--start", "--jobs", "--out", "--digests-out", "--replay-dir",
        "--max-wall", "--shrink-budget", "--run", "--vectors", "--tape-out", "--tape-file",
    ];
    while i < a.len() {
        if valued.contains(&a[i].as_str()) {
            if i + 1 >= a.len() {
                eprintln!("missing value for {}", a[i]);
                std::process::exit(2);
            }
            kv.insert(a[i].clone(), a[i + 1].clone());
            i += 2;
        } else if a[i].starts_with("--") {
            flags.push(a[i].clone());
            i += 1;
        } else {
            pos.push(a[i].clone());
            i += 1;
        }
    }
    Args { pos, kv, flags }
}

impl Args {
    fn get(&self, k: &str) -> Option<&str> {
        self.kv.get(k).map(|s| s.as_str())
    }
    fn u64(&self, k: &str, d: u64) -> u64 {
        match self.get(k) {
            Some(v) => v.parse().unwrap_or_else(|_| {
                eprintln!("bad number for {}: {}", k, v);
                std::process::exit(2)
            }),
            None => d,
        }
    }
    fn flag(&self, k: &str) -> bool {
        self.flags.iter().any(|f| f == k)
    }
}

fn seed_from(args: &Args) -> u64 {
    if let Some(s) = args.get("--seed") {
        return s.parse().unwrap_or(DEFAULT_SEED);
    }
    match std::env::var("VERIF_SEED") {
        Ok(s) if !s.trim().is_empty() => s.trim().parse().unwrap_or(DEFAULT_SEED),
        _ => DEFAULT_SEED,
    }
}

fn sanitize(s: &str) -> String {
    s.chars().map(|c| if c.is_ascii_alphanumeric() || c == '-' || c == '_' || c == '.' { c } else { '_' }).collect()
}

fn cmd_batch(args: &Args) -> i32 {
    let e = find_engine(args.get("--engine").unwrap_or("hash"));
    let tier = Tier::parse(args.get("--tier").unwrap_or("quick")).unwrap_or(Tier::Quick);
    let seed = seed_from(args);
    let jobs = args.u64("--jobs", std::thread::available_parallelism().map(|n| n.get() as u64).unwrap_or(4)) as usize;
    let cfg = BatchCfg {
        verif_seed: seed,
        start: args.u64("--start", 0),
        runs: args.u64("--runs", 1000),
        jobs,
        tier,
        keep_digests: args.get("--digests-out").is_some(),
        max_wall_s: args.u64("--max-wall", 0),
    };
    println!("VERIF_SEED={} engine={} tier={} runs={} start={} jobs={}", seed, e.name, tier.name(), cfg.runs, cfg.start, jobs);
    let r = batch(&e, &cfg);
    if let Some(p) = args.get("--digests-out") {
        let mut s = String::new();
        for (i, d) in r.digests.iter() {
            s.push_str(&format!("{} {}\n", i, digest_hex(*d)));
        }
        if let Err(err) = std::fs::write(p, s) {
            eprintln!("cannot write {}: {}", p, err);
            return 2;
        }
    }
    // Violations: shrink, write replay file, verify in a fresh process.
    let replay_dir = args.get("--replay-dir").unwrap_or("/verif/replays").to_string();
    let budget = args.u64("--shrink-budget", 30);
    let mut found_json = Vec::new();
    let mut harness_error = false;
    // shrink all classes in parallel (each shrink is single-threaded)
    let items: Vec<&runner::Found> = r.found.values().collect();
    let shrunk: Vec<(Vec<u64>, u64)> = {
        let res: std::sync::Mutex<Vec<Option<(Vec<u64>, u64)>>> = std::sync::Mutex::new(vec![None; items.len()]);
        let next = std::sync::atomic::AtomicUsize::new(0);
        let no_shrink = args.flag("--no-shrink");
        std::thread::scope(|sc| {
            for _ in 0..jobs.min(items.len()).max(1) {
                sc.spawn(|| loop {
                    let i = next.fetch_add(1, std::sync::atomic::Ordering::Relaxed);
                    if i >= items.len() {
                        break;
                    }
                    let f = items[i];
                    let out = if no_shrink { (f.tape.clone(), 0) } else { shrink(&e, tier, f.tape.clone(), f.v.prop, &f.v.class, budget) };
                    res.lock().unwrap()[i] = Some(out);
                });
            }
        });
        res.into_inner().unwrap().into_iter().map(|x| x.unwrap()).collect()
    };
    for (fi, f) in items.iter().enumerate() {
        let orig_len = f.tape.len();
        let (tape, execs) = shrunk[fi].clone();
        let btag = std::env::var("CRRL_SIM_BUILD").map(|b| format!("{}-", sanitize(&b))).unwrap_or_default();
        let path = format!("{}/{}-{}{}-{}-{}.json", replay_dir, f.v.prop, btag, sanitize(&f.v.class), seed, f.run);
        if let Err(err) = write_replay_file(&path, &e, tier, seed, f.run, &f.v, &tape, orig_len, execs) {
            eprintln!("cannot write replay file {}: {}", path, err);
            return 2;
        }
        // fresh-process replay
        let exe = std::env::current_exe().unwrap();
        let st = std::process::Command::new(exe).arg("replay").arg(&path).arg("--quiet").status();
        let verified = matches!(st, Ok(s) if s.code() == Some(1));
        if !verified {
            eprintln!("HARNESS-ERROR: violation {} {} did not reproduce from {}", f.v.prop, f.v.class, path);
            harness_error = true;
        }
        println!(
            "FOUND property={} class={} replay={} run={} count={} tape_len={} (from {}) verified={}",
            f.v.prop,
            f.v.class,
            path,
            f.run,
            f.count,
            tape.len(),
            orig_len,
            verified
        );
        println!("  detail: {}", f.v.detail);
        let mut j = J::obj();
        j.set("property", J::s(f.v.prop));
        j.set("class", J::s(&f.v.class));
        j.set("detail", J::s(&f.v.detail));
        j.set("replay", J::s(&path));
        j.set("run", J::u(f.run));
        j.set("count", J::u(f.count));
        j.set("tape_len", J::u(tape.len() as u64));
        j.set("verified", J::Bool(verified));
        found_json.push(j);
    }
    let mut j = J::obj();
    j.set("engine", J::s(e.name));
    j.set("tier", J::s(tier.name()));
    j.set("seed", J::u(seed));
    j.set("runs", J::u(r.runs));
    j.set("runs_requested", J::u(cfg.runs));
    j.set("start", J::u(cfg.start));
    j.set("jobs", J::u(jobs as u64));
    j.set("wall_s", J::Num((r.wall_s * 1000.0).round() / 1000.0));
    j.set("runs_per_hour", J::u(if r.wall_s > 0.0 { (r.runs as f64 / r.wall_s * 3600.0) as u64 } else { 0 }));
    j.set("simulated_seconds", J::Num(r.sim_time_us as f64 / 1e6));
    j.set("events", J::u(r.events as u64));
    j.set("runs_with_fault", J::u(r.runs_with_fault));
    j.set("runs_with_completed_op", J::u(r.runs_with_op));
    j.set("nontrivial_runs", J::u(r.nontrivial_runs));
    j.set("distinct_nontrivial", J::u(r.distinct_nontrivial));
    let mut c = J::obj();
    for (k, v) in r.stats.c.iter() {
        c.set(k, J::u(*v));
    }
    j.set("counters", c);
    // one actual case written out: the first lines of the transcript of the first run of this batch
    let mut samples: Vec<J> = Vec::new();
    if !args.flag("--no-sample") {
        let sample_run = run_search(&e, tier, seed, cfg.start, true);
        let mut o = J::obj();
        o.set("run_index", J::u(cfg.start));
        o.set("summary", J::s(&sample_run.out.summary));
        o.set("decision_tape_length", J::u(sample_run.tape.len() as u64));
        o.set("decision_tape_head", J::Arr(sample_run.tape.iter().take(24).map(|&x| J::u(x)).collect()));
        o.set("events", J::u(sample_run.out.events));
        o.set("transcript_head", J::Arr(sample_run.out.log.iter().take(14).map(|l| J::s(&l.chars().take(220).collect::<String>())).collect()));
        o.set("transcript_digest", J::s(&digest_hex(sample_run.out.digest())));
        samples.push(o);
    }
    for s in r.samples.iter() {
        samples.push(J::s(s));
    }
    j.set("samples", J::Arr(samples));
    j.set("found", J::Arr(found_json));
    if let Some(p) = args.get("--out") {
        if let Err(err) = std::fs::write(p, j.to_string() + "\n") {
            eprintln!("cannot write {}: {}", p, err);
            return 2;
        }
    }
    println!(
        "done: {} runs in {:.1}s ({} nontrivial, {} distinct schedules, {} violation classes)",
        r.runs,
        r.wall_s,
        r.nontrivial_runs,
        r.distinct_nontrivial,
        r.found.len()
    );
    if harness_error {
        2
    } else if r.found.is_empty() {
        0
    } else {
        1
    }
}

fn cmd_replay(args: &Args) -> i32 {
    let path = match args.pos.get(0) {
        Some(p) => p,
        None => {
            eprintln!("usage: replay FILE");
            return 2;
        }
    };
    let spec = match read_replay_file(path) {
        Ok(s) => s,
        Err(e) => {
            eprintln!("cannot read replay file: {}", e);
            return 2;
        }
    };
    let e = find_engine(&spec.engine);
    let verbose = args.flag("--verbose");
    let quiet = args.flag("--quiet");
    let r = if spec.hang {
        // hang replays are (seed, run) coordinates: re-run in search mode
        run_search(&e, spec.tier, spec.verif_seed, spec.run_index, verbose)
    } else {
        run_replay(&e, spec.tier, &spec.tape, verbose)
    };
    if verbose {
        for l in r.out.log.iter() {
            println!("{}", l);
        }
    }
    let hit = r.out.violations.iter().find(|v| v.prop == spec.property && v.class == spec.class);
    let dig = digest_hex(r.out.digest());
    if !quiet {
        println!("replay of {}: engine={} tier={} tape_len={} digest={}", path, spec.engine, spec.tier.name(), spec.tape.len(), dig);
        for v in r.out.violations.iter() {
            println!("  observed: {} {} :: {}", v.prop, v.class, v.detail);
        }
    }
    match hit {
        Some(_) => {
            if !quiet {
                let same = spec.digest.is_empty() || spec.digest == dig;
                println!("REPRODUCED property={} class={} digest_identical={}", spec.property, spec.class, same);
            }
            1
        }
        None => {
            if !quiet {
                println!("NOT-REPRODUCED property={} class={}", spec.property, spec.class);
            }
            0
        }
    }
}

fn cmd_one(args: &Args) -> i32 {
    let e = find_engine(args.get("--engine").unwrap_or("hash"));
    let tier = Tier::parse(args.get("--tier").unwrap_or("quick")).unwrap_or(Tier::Quick);
    let seed = seed_from(args);
    let idx = args.u64("--run", 0);
    let r = run_search(&e, tier, seed, idx, args.flag("--verbose"));
    for l in r.out.log.iter() {
        println!("{}", l);
    }
    println!("summary: {}", r.out.summary);
    println!(
        "engine={} seed={} run={} events={} sim_time_us={} faults={} ops={} tape_len={} digest={}",
        e.name,
        seed,
        idx,
        r.out.events,
        r.out.sim_time_us,
        r.out.faults_fired,
        r.out.ops_completed,
        r.tape.len(),
        digest_hex(r.out.digest())
    );
    for (k, v) in r.out.stats.c.iter() {
        println!("  {} = {}", k, v);
    }
    for v in r.out.violations.iter() {
        println!("VIOLATION-IN-RUN {} {} :: {}", v.prop, v.class, v.detail);
    }
    if let Some(p) = args.get("--tape-out") {
        let j = J::Arr(r.tape.iter().map(|&x| J::u(x)).collect());
        let _ = std::fs::write(p, j.to_string());
    }
    if r.out.violations.is_empty() {
        0
    } else {
        1
    }
}

/// Execute a raw tape (JSON array) and print the transcript digest; used by
/// the cross-build comparison and its shrinker.
fn cmd_tape(args: &Args) -> i32 {
    let e = find_engine(args.get("--engine").unwrap_or("hash"));
    let tier = Tier::parse(args.get("--tier").unwrap_or("quick")).unwrap_or(Tier::Quick);
    let path = match args.get("--tape-file") {
        Some(p) => p,
        None => return 2,
    };
    let s = match std::fs::read_to_string(path) {
        Ok(s) => s,
        Err(err) => {
            eprintln!("{}: {}", path, err);
            return 2;
        }
    };
    let tape: Vec<u64> = match J::parse(&s) {
        Ok(J::Arr(a)) => a.iter().map(|x| x.as_u64().unwrap_or(0)).collect(),
        _ => {
            eprintln!("bad tape file");
            return 2;
        }
    };
    let r = run_replay(&e, tier, &tape, args.flag("--verbose"));
    for l in r.out.log.iter() {
        println!("{}", l);
    }
    println!("digest={}", digest_hex(r.out.digest()));
    0
}

fn cmd_selftest(args: &Args) -> i32 {
    let path = args.get("--vectors").unwrap_or("/verif/vectors/hashlib_vectors.json");
    match world::selftest::run(path) {
        Ok(n) => {
            println!("selftest ok: {} reference hash vectors matched", n);
            let lp = std::path::Path::new(path).with_file_name("lms_kat.json");
            match world::selftest::run_lms(lp.to_str().unwrap()) {
                Ok(k) => {
                    println!("selftest ok: reference LMS model reproduces {} published known-answer signatures", k);
                    0
                }
                Err(e) => {
                    eprintln!("SELFTEST FAILED: {}", e);
                    2
                }
            }
        }
        Err(e) => {
            eprintln!("SELFTEST FAILED: {}", e);
            2
        }
    }
}

fn main() {
    core::install_panic_hook();
    let argv: Vec<String> = std::env::args().collect();
    if argv.len() < 2 {
        eprintln!("usage: crrl-sim <batch|replay|one|selftest|engines> ...");
        std::process::exit(2);
    }
    let args = parse_args(&argv[2..]);
    let code = match argv[1].as_str() {
        "batch" => cmd_batch(&args),
        "replay" => cmd_replay(&args),
        "one" => cmd_one(&args),
        "selftest" => cmd_selftest(&args),
        "tape" => cmd_tape(&args),
        "engines" => {
            for e in engines() {
                println!("{}", e.name);
            }
            0
        }
        "features" => {
            println!("{}", world::build_description());
            0
        }
        _ => {
            eprintln!("unknown subcommand {}", argv[1]);
            2
        }
    };
    std::process::exit(code);
}
