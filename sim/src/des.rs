//! Discrete-event core: a priority queue of (simulated time, global sequence
//! number, event). The sequence number gives a total order and is the stamp
//! used in histories. When nothing is runnable the clock jumps to the next
//! event, so timeouts cost nothing.

use crate::tape::Tape;
use std::cmp::Reverse;
use std::collections::BinaryHeap;

pub struct Queue<E> {
    pub now: u64,
    seq: u64,
    heap: BinaryHeap<Reverse<(u64, u64, usize)>>,
    slab: Vec<Option<E>>,
    free: Vec<usize>,
    pub popped: u64,
}

impl<E> Queue<E> {
    pub fn new() -> Self {
        Self { now: 0, seq: 0, heap: BinaryHeap::new(), slab: Vec::new(), free: Vec::new(), popped: 0 }
    }
    pub fn at(&mut self, time: u64, e: E) {
        let time = time.max(self.now);
        self.seq += 1;
        let idx = match self.free.pop() {
            Some(i) => {
                self.slab[i] = Some(e);
                i
            }
            None => {
                self.slab.push(Some(e));
                self.slab.len() - 1
            }
        };
        self.heap.push(Reverse((time, self.seq, idx)));
    }
    pub fn after(&mut self, delay: u64, e: E) {
        self.at(self.now + delay, e);
    }
    pub fn pop(&mut self) -> Option<(u64, E)> {
        let Reverse((time, seq, idx)) = self.heap.pop()?;
        self.now = time;
        self.popped += 1;
        let e = self.slab[idx].take().unwrap();
        self.free.push(idx);
        Some((seq, e))
    }
    pub fn len(&self) -> usize {
        self.heap.len()
    }
    pub fn peek_time(&self) -> Option<u64> {
        self.heap.peek().map(|Reverse((t, _, _))| *t)
    }
}

/// Per-run network fault configuration (swarm style: each kind has an enable
/// bit and a rate drawn per run). Rates are "x in 1000".
#[derive(Clone, Debug)]
pub struct NetCfg {
    pub drop: u64,
    pub dup: u64,
    pub reorder: u64,
    pub corrupt: u64,
    pub stale: u64,
    pub base_latency: u64,
    pub jitter: u64,
    /// Simulated time after which the network is perfect.
    pub heal_at: u64,
}

#[derive(Clone, Copy, PartialEq, Eq, Debug)]
pub enum CopyKind {
    Clean,
    Corrupt,
    /// Deliver an older payload of the same kind under the current header.
    Stale,
}

impl NetCfg {
    /// Draw a per-run configuration. `level` 0 = no faults at all.
    pub fn draw(t: &mut Tape, heal_at: u64) -> NetCfg {
        let menu = [0u64, 20, 80, 200];
        let mut pick = |t: &mut Tape| menu[t.weighted(&[4, 3, 2, 1])];
        NetCfg {
            drop: pick(t),
            dup: pick(t),
            reorder: pick(t),
            corrupt: pick(t),
            stale: pick(t),
            base_latency: 1_000,
            jitter: 4_000,
            heal_at,
        }
    }
    pub fn none() -> NetCfg {
        NetCfg { drop: 0, dup: 0, reorder: 0, corrupt: 0, stale: 0, base_latency: 1_000, jitter: 0, heal_at: 0 }
    }
    /// Decide the fate of one message sent at `now`: a list of
    /// (delay, kind) copies to deliver (empty = dropped).
    pub fn plan(&self, t: &mut Tape, now: u64, fired: &mut dyn FnMut(&'static str)) -> Vec<(u64, CopyKind)> {
        if now >= self.heal_at {
            return vec![(self.base_latency, CopyKind::Clean)];
        }
        if self.drop > 0 && t.chance(self.drop, 1000) {
            fired("fault.net.drop");
            return Vec::new();
        }
        let mut v = Vec::new();
        let mut delay = self.base_latency;
        if self.reorder > 0 && t.chance(self.reorder, 1000) {
            fired("fault.net.delay_reorder");
            delay += 1 + t.choose(self.jitter.max(1) * 4);
        } else if self.jitter > 0 {
            delay += t.choose(self.jitter / 4 + 1);
        }
        let mut kind = CopyKind::Clean;
        if self.corrupt > 0 && t.chance(self.corrupt, 1000) {
            kind = CopyKind::Corrupt;
        } else if self.stale > 0 && t.chance(self.stale, 1000) {
            kind = CopyKind::Stale;
        }
        v.push((delay, kind));
        if self.dup > 0 && t.chance(self.dup, 1000) {
            fired("fault.net.duplicate");
            let copies = 1 + t.choose(3);
            for _ in 0..copies {
                let d = delay + 1 + t.choose(self.jitter.max(1) * 6);
                // a duplicate may itself be corrupted
                let k = if self.corrupt > 0 && t.chance(self.corrupt, 2000) { CopyKind::Corrupt } else { CopyKind::Clean };
                v.push((d, k));
            }
        }
        v
    }
}
