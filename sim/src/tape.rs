//! Decision tape: every choice a simulated run makes goes through here.
//!
//! Search mode: values come from a xoshiro256** PRNG derived from
//! (VERIF_SEED, engine, run index) and are recorded. Replay mode: values are
//! read from a recorded (possibly shrunk) tape; an exhausted tape yields 0,
//! which every generator treats as "the simplest choice" (no fault, in order,
//! smallest size).

#[derive(Clone)]
pub struct Xoshiro {
    s: [u64; 4],
}

pub fn splitmix64(x: &mut u64) -> u64 {
    *x = x.wrapping_add(0x9E3779B97F4A7C15);
    let mut z = *x;
    z = (z ^ (z >> 30)).wrapping_mul(0xBF58476D1CE4E5B9);
    z = (z ^ (z >> 27)).wrapping_mul(0x94D049BB133111EB);
    z ^ (z >> 31)
}

impl Xoshiro {
    pub fn new(seed: u64) -> Self {
        let mut x = seed;
        let s = [
            splitmix64(&mut x),
            splitmix64(&mut x),
            splitmix64(&mut x),
            splitmix64(&mut x),
        ];
        Self { s }
    }
    #[inline]
    pub fn next(&mut self) -> u64 {
        let r = self.s[1].wrapping_mul(5).rotate_left(7).wrapping_mul(9);
        let t = self.s[1] << 17;
        self.s[2] ^= self.s[0];
        self.s[3] ^= self.s[1];
        self.s[1] ^= self.s[2];
        self.s[0] ^= self.s[3];
        self.s[2] ^= t;
        self.s[3] = self.s[3].rotate_left(45);
        r
    }
}

/// Mix (verif_seed, engine id, run index) into one 64-bit PRNG seed.
pub fn derive_seed(verif_seed: u64, engine: &str, run: u64) -> u64 {
    let mut x = verif_seed ^ 0xC0FFEE_1234_5678;
    let mut acc = splitmix64(&mut x);
    for b in engine.bytes() {
        x ^= b as u64;
        acc ^= splitmix64(&mut x);
    }
    x ^= run.wrapping_mul(0xD6E8FEB86659FD93);
    acc ^ splitmix64(&mut x)
}

pub struct Tape {
    replay: Option<Vec<u64>>,
    pos: usize,
    prng: Xoshiro,
    pub rec: Vec<u64>,
}

impl Tape {
    pub fn search(seed: u64) -> Self {
        Self { replay: None, pos: 0, prng: Xoshiro::new(seed), rec: Vec::new() }
    }
    pub fn replay(v: Vec<u64>) -> Self {
        Self { replay: Some(v), pos: 0, prng: Xoshiro::new(0), rec: Vec::new() }
    }
    pub fn is_replay(&self) -> bool {
        self.replay.is_some()
    }
    /// Number of draws made so far.
    pub fn position(&self) -> usize {
        self.rec.len()
    }
    #[inline]
    fn next_raw(&mut self) -> Option<u64> {
        match &self.replay {
            Some(v) => {
                let r = if self.pos < v.len() { v[self.pos] } else { 0 };
                self.pos += 1;
                Some(r)
            }
            None => None,
        }
    }
    /// Uniform choice in [0, n). n == 0 is treated as 1.
    #[inline]
    pub fn choose(&mut self, n: u64) -> u64 {
        let n = if n == 0 { 1 } else { n };
        let v = match self.next_raw() {
            Some(r) => r % n,
            None => self.prng.next() % n,
        };
        self.rec.push(v);
        v
    }
    #[inline]
    pub fn usize(&mut self, n: usize) -> usize {
        self.choose(n as u64) as usize
    }
    /// Inclusive range [lo, hi]; lo is the "simplest".
    #[inline]
    pub fn range(&mut self, lo: u64, hi: u64) -> u64 {
        lo + self.choose(hi - lo + 1)
    }
    /// True with probability num/den. Recorded as 1 (fired) or 0, so that
    /// zeroing an entry while shrinking removes the fault.
    #[inline]
    pub fn chance(&mut self, num: u64, den: u64) -> bool {
        let v = match self.next_raw() {
            Some(r) => (r != 0 && num != 0) as u64,
            None => ((self.prng.next() % den) < num) as u64,
        };
        self.rec.push(v);
        v != 0
    }
    /// A full 64-bit value (used to seed bulk byte generators).
    #[inline]
    pub fn seed64(&mut self) -> u64 {
        let v = match self.next_raw() {
            Some(r) => r,
            None => self.prng.next(),
        };
        self.rec.push(v);
        v
    }
    /// Weighted choice: returns index i with probability w[i]/sum(w).
    /// Index 0 should be the simplest alternative.
    pub fn weighted(&mut self, w: &[u64]) -> usize {
        // Recorded as the *index* so that shrinking toward 0 simplifies.
        let total: u64 = w.iter().sum();
        let v = match self.next_raw() {
            Some(r) => {
                let mut i = (r as usize) % w.len();
                // skip zero-weight alternatives deterministically
                let mut guard = 0;
                while w[i] == 0 && guard < w.len() {
                    i = (i + 1) % w.len();
                    guard += 1;
                }
                i as u64
            }
            None => {
                let mut x = self.prng.next() % total.max(1);
                let mut idx = 0usize;
                for (i, &wi) in w.iter().enumerate() {
                    if x < wi {
                        idx = i;
                        break;
                    }
                    x -= wi;
                }
                idx as u64
            }
        };
        self.rec.push(v);
        v as usize
    }
}
