//! Structure-aware corruption of FROST wire messages ("mangler"). Every kind
//! is a separately counted fault. The result always differs from the input.

use crate::rng::SimRng;
use crate::tape::Tape;

#[derive(Clone, Copy, PartialEq, Eq, Debug)]
pub enum FieldKind {
    Ident,
    Scalar,
    Point,
}

#[derive(Clone, Copy, Debug)]
pub struct Field {
    pub off: usize,
    pub len: usize,
    pub kind: FieldKind,
}

/// Layout of a wire type as a repetition of one record.
#[derive(Clone, Debug)]
pub struct Layout {
    pub record: Vec<(usize, FieldKind)>, // (len, kind) in order
    pub is_list: bool,
}

impl Layout {
    pub fn record_len(&self) -> usize {
        self.record.iter().map(|x| x.0).sum()
    }
    pub fn fields(&self, total_len: usize) -> Vec<Field> {
        let rl = self.record_len();
        let mut v = Vec::new();
        if rl == 0 || total_len % rl != 0 {
            return v;
        }
        let n = total_len / rl;
        for r in 0..n {
            let mut off = r * rl;
            for &(len, kind) in self.record.iter() {
                v.push(Field { off, len, kind });
                off += len;
            }
        }
        v
    }
}

pub struct MangleCtx<'a> {
    /// Wire encodings of other *valid* points / scalars / identifiers the
    /// simulator has seen (ground truth pools).
    pub points: &'a [Vec<u8>],
    pub scalars: &'a [Vec<u8>],
    pub idents: &'a [Vec<u8>],
    pub bad_points: &'a [Vec<u8>],
    /// Wire encoding of order-1 (canonical), to build non-canonical scalars.
    pub order_m1: &'a [u8],
    pub scalar_be: bool,
    /// Other messages of the same wire type (for splicing).
    pub others: &'a [Vec<u8>],
}

pub struct Mangled {
    pub bytes: Vec<u8>,
    pub kind: &'static str,
    /// The decoder itself must refuse this (wrong length, zero identifier,
    /// non-canonical scalar, neutral / invalid / off-subgroup point).
    pub must_fail_decode: bool,
}

fn add_small(wire: &[u8], be: bool, add: u64) -> Option<Vec<u8>> {
    // big add on a fixed-width integer; None on overflow
    let mut v = wire.to_vec();
    if be {
        v.reverse();
    }
    let mut carry = add as u128;
    for b in v.iter_mut() {
        let s = *b as u128 + (carry & 0xFF);
        *b = s as u8;
        carry = (carry >> 8) + (s >> 8);
    }
    if carry != 0 {
        return None;
    }
    if be {
        v.reverse();
    }
    Some(v)
}

pub const KINDS: [&str; 18] = [
    "fault.mangle.bitflip",
    "fault.mangle.multi_bitflip",
    "fault.mangle.truncate",
    "fault.mangle.extend",
    "fault.mangle.zero_field",
    "fault.mangle.ff_field",
    "fault.mangle.scalar_noncanonical",
    "fault.mangle.ident_zero",
    "fault.mangle.ident_other_participant",
    "fault.mangle.point_neutral_or_invalid",
    "fault.mangle.point_other_valid",
    "fault.mangle.scalar_other_valid",
    "fault.mangle.list_swap",
    "fault.mangle.list_duplicate",
    "fault.mangle.list_drop",
    "fault.mangle.splice_field",
    "fault.mangle.empty",
    "fault.mangle.scalar_unused_top_bits",
];

pub fn mangle(t: &mut Tape, rng: &mut SimRng, layout: &Layout, orig: &[u8], cx: &MangleCtx) -> Mangled {
    let fields = layout.fields(orig.len());
    let rl = layout.record_len();
    let nrec = if rl > 0 && orig.len() % rl == 0 { orig.len() / rl } else { 0 };
    // index 0 = single bit flip: the simplest corruption
    let mut kind = t.weighted(&[6, 2, 3, 2, 2, 1, 3, 2, 3, 4, 5, 3, 2, 2, 2, 3, 1, 3]);
    for _attempt in 0..4 {
        let mut b = orig.to_vec();
        let mut must_fail = false;
        let pick = |t: &mut Tape, k: FieldKind| -> Option<Field> {
            let c: Vec<Field> = fields.iter().cloned().filter(|f| f.kind == k).collect();
            if c.is_empty() {
                None
            } else {
                Some(c[t.usize(c.len())])
            }
        };
        let ok = match kind {
            0 => {
                if b.is_empty() {
                    false
                } else {
                    let i = t.usize(b.len());
                    b[i] ^= 1 << t.usize(8);
                    true
                }
            }
            1 => {
                if b.is_empty() {
                    false
                } else {
                    let n = 2 + t.usize(6);
                    for _ in 0..n {
                        let i = t.usize(b.len());
                        b[i] ^= 1 << t.usize(8);
                    }
                    true
                }
            }
            2 => {
                if b.is_empty() {
                    false
                } else {
                    // by 1..len bytes; biased to "one byte" and "one whole record"
                    let cut = match t.usize(4) {
                        0 => 1,
                        1 if rl > 0 && rl <= b.len() => rl,
                        _ => 1 + t.usize(b.len()),
                    };
                    b.truncate(b.len() - cut.min(b.len()));
                    // whole-record truncation of a list is a different (shorter) list, not a decode failure
                    must_fail = !(layout.is_list && rl > 0 && b.len() % rl == 0 && b.len() / rl >= 2);
                    true
                }
            }
            3 => {
                let add = match t.usize(4) {
                    0 => 1,
                    1 if rl > 0 => rl,
                    2 => 1 + t.usize(64),
                    _ => 1 + t.usize(65536),
                };
                let extra = rng.bytes(add);
                b.extend_from_slice(&extra);
                // a list extended by a whole number of records may parse (if the junk happens to be valid): very unlikely
                must_fail = !(layout.is_list && rl > 0 && b.len() % rl == 0);
                true
            }
            4 | 5 => {
                if fields.is_empty() {
                    false
                } else {
                    let f = fields[t.usize(fields.len())];
                    let v = if kind == 4 { 0u8 } else { 0xFF };
                    for x in b[f.off..f.off + f.len].iter_mut() {
                        *x = v;
                    }
                    // zero ident, all-ones scalar (>= order), all-ones point: never decodable;
                    // a zero *scalar* is canonical; zero point bytes are invalid in every suite
                    // (ed25519/ed448 y=0 is a low-order point, ristretto 0 is the neutral, SEC1 tag 0).
                    must_fail = kind == 5 || f.kind != FieldKind::Scalar;
                    true
                }
            }
            6 => match {
                let want_ident = t.chance(1, 3);
                let first = pick(t, if want_ident { FieldKind::Ident } else { FieldKind::Scalar });
                match first {
                    Some(f) => Some(f),
                    None => pick(t, FieldKind::Ident),
                }
            } {
                Some(f) => {
                    // value + order (same residue, non-canonical) or order + small
                    let r = 1 + t.choose(1000);
                    match add_small(cx.order_m1, cx.scalar_be, r) {
                        Some(v) if v.len() == f.len => {
                            b[f.off..f.off + f.len].copy_from_slice(&v);
                            must_fail = true;
                            true
                        }
                        _ => false,
                    }
                }
                None => false,
            },
            7 => match pick(t, FieldKind::Ident) {
                Some(f) => {
                    for x in b[f.off..f.off + f.len].iter_mut() {
                        *x = 0;
                    }
                    must_fail = true;
                    true
                }
                None => false,
            },
            8 => match pick(t, FieldKind::Ident) {
                Some(f) if !cx.idents.is_empty() => {
                    let v = &cx.idents[t.usize(cx.idents.len())];
                    if v.len() == f.len {
                        b[f.off..f.off + f.len].copy_from_slice(v);
                        true
                    } else {
                        false
                    }
                }
                _ => false,
            },
            9 => match pick(t, FieldKind::Point) {
                Some(f) if !cx.bad_points.is_empty() => {
                    let c: Vec<&Vec<u8>> = cx.bad_points.iter().filter(|p| p.len() == f.len).collect();
                    if c.is_empty() {
                        false
                    } else {
                        b[f.off..f.off + f.len].copy_from_slice(c[t.usize(c.len())]);
                        must_fail = true;
                        true
                    }
                }
                _ => false,
            },
            10 => match pick(t, FieldKind::Point) {
                Some(f) if t.chance(1, 4) => {
                    // another point field of the *same* message (hiding := binding, entry i := entry j):
                    // individually valid values in an unusual relation
                    let others: Vec<Field> = fields.iter().cloned().filter(|g| g.kind == FieldKind::Point && g.off != f.off && g.len == f.len).collect();
                    if others.is_empty() {
                        false
                    } else {
                        let g = others[t.usize(others.len())];
                        let v = orig[g.off..g.off + g.len].to_vec();
                        let w = orig[f.off..f.off + f.len].to_vec();
                        b[f.off..f.off + f.len].copy_from_slice(&v);
                        if t.chance(1, 2) {
                            // swap rather than copy (hiding <-> binding)
                            b[g.off..g.off + g.len].copy_from_slice(&w);
                        }
                        true
                    }
                }
                Some(f) if !cx.points.is_empty() => {
                    let v = &cx.points[t.usize(cx.points.len())];
                    if v.len() == f.len {
                        b[f.off..f.off + f.len].copy_from_slice(v);
                        true
                    } else {
                        false
                    }
                }
                _ => false,
            },
            11 => match pick(t, FieldKind::Scalar) {
                Some(f) if !cx.scalars.is_empty() => {
                    let v = &cx.scalars[t.usize(cx.scalars.len())];
                    if v.len() == f.len {
                        b[f.off..f.off + f.len].copy_from_slice(v);
                        true
                    } else {
                        false
                    }
                }
                _ => false,
            },
            12 => {
                if layout.is_list && nrec >= 2 {
                    let i = t.usize(nrec - 1);
                    let j = i + 1 + t.usize(nrec - 1 - i);
                    let (a, c) = (orig[i * rl..(i + 1) * rl].to_vec(), orig[j * rl..(j + 1) * rl].to_vec());
                    b[i * rl..(i + 1) * rl].copy_from_slice(&c);
                    b[j * rl..(j + 1) * rl].copy_from_slice(&a);
                    true
                } else {
                    false
                }
            }
            13 => {
                if layout.is_list && nrec >= 1 {
                    let i = t.usize(nrec);
                    let rec = orig[i * rl..(i + 1) * rl].to_vec();
                    let at = (i + 1) * rl; // right after: keeps "ascending" nearly intact
                    let mut nb = orig[..at].to_vec();
                    nb.extend_from_slice(&rec);
                    nb.extend_from_slice(&orig[at..]);
                    b = nb;
                    true
                } else {
                    false
                }
            }
            14 => {
                if layout.is_list && nrec >= 2 {
                    let i = t.usize(nrec);
                    let mut nb = orig[..i * rl].to_vec();
                    nb.extend_from_slice(&orig[(i + 1) * rl..]);
                    b = nb;
                    must_fail = nrec - 1 < 2;
                    true
                } else {
                    false
                }
            }
            15 => {
                let c: Vec<&Vec<u8>> = cx.others.iter().filter(|o| o.len() == orig.len() && o[..] != orig[..]).collect();
                if c.is_empty() || fields.is_empty() {
                    false
                } else {
                    let o = c[t.usize(c.len())];
                    let f = fields[t.usize(fields.len())];
                    b[f.off..f.off + f.len].copy_from_slice(&o[f.off..f.off + f.len]);
                    true
                }
            }
            17 => {
                // set one of the bits a canonical scalar can never have: the top bits of the most significant
                // byte (little-endian suites: the last byte, which for Ed448 is the all-zero padding byte)
                let want_ident = t.chance(1, 3);
                let f = match pick(t, if want_ident { FieldKind::Ident } else { FieldKind::Scalar }) {
                    Some(f) => Some(f),
                    None => pick(t, FieldKind::Ident),
                };
                match f {
                    Some(f) if f.len > 0 => {
                        let pos = if cx.scalar_be { f.off } else { f.off + f.len - 1 };
                        let bit = 7 - t.usize(2) as u8; // bit 7 or 6
                        if b[pos] & (1 << bit) != 0 {
                            false
                        } else {
                            b[pos] |= 1 << bit;
                            // little-endian suites: orders are < 2^253 (25519) / the 57th byte must be zero (448), so
                            // this can never be canonical; SEC1 suites have orders close to 2^256, so it may be
                            must_fail = !cx.scalar_be;
                            true
                        }
                    }
                    _ => false,
                }
            }
            _ => {
                b.clear();
                must_fail = true;
                !orig.is_empty()
            }
        };
        if ok && b[..] != orig[..] {
            return Mangled { bytes: b, kind: KINDS[kind], must_fail_decode: must_fail };
        }
        // not applicable to this message: fall back to the simplest kind
        kind = 0;
        if orig.is_empty() {
            kind = 3;
        }
    }
    // last resort: append one byte
    let mut b = orig.to_vec();
    b.push(0x42);
    Mangled { bytes: b, kind: KINDS[3], must_fail_decode: true }
}
