//! Simulated worlds (engines).
pub mod apitrace;
pub mod exchange;
pub mod frost;
pub mod hash;
pub mod hashlong;
pub mod lms;
pub mod mangle;
pub mod selftest;
pub mod suite;

use crate::core::RunOut;
use crate::runner::{Engine, Tier};
use crate::tape::Tape;

fn run_hash(t: &mut Tape, tier: Tier, out: &mut RunOut) {
    let cfg = hash::Cfg { max_steps: if tier == Tier::Quick { 40 } else { 90 }, only: None };
    hash::run(t, &cfg, out);
}

fn run_frost(t: &mut Tape, tier: Tier, out: &mut RunOut) {
    // suite first, so a shrunk tape keeps its ciphersuite
    let suite = t.usize(5);
    let big_n = t.chance(1, 12);
    let many = !big_n && t.chance(1, 25);
    let cfg = frost::Cfg { tier, big_n, many };
    match suite {
        0 => frost::run::<suite::Ed25519>(t, &cfg, out),
        1 => frost::run::<suite::Ristretto255>(t, &cfg, out),
        2 => frost::run::<suite::P256>(t, &cfg, out),
        3 => frost::run::<suite::Secp256k1>(t, &cfg, out),
        _ => frost::run::<suite::Ed448>(t, &cfg, out),
    }
}

fn run_lms(t: &mut Tape, tier: Tier, out: &mut RunOut) {
    let set = t.usize(4);
    let cfg = lms::Cfg { thorough: tier == Tier::Thorough };
    match set {
        0 => lms::run::<lms::Sha256M32, lms::ShakeM32>(t, &cfg, out),
        1 => lms::run::<lms::Sha256M24, lms::ShakeM24>(t, &cfg, out),
        2 => lms::run::<lms::ShakeM32, lms::Sha256M24>(t, &cfg, out),
        _ => lms::run::<lms::ShakeM24, lms::Sha256M32>(t, &cfg, out),
    }
}

pub fn registry() -> Vec<Engine> {
    vec![
        Engine { name: "hash", run: run_hash, hang_allowance_s: 20 },
        Engine { name: "hashlong", run: hashlong::run, hang_allowance_s: 240 },
        Engine { name: "hashlong4g", run: hashlong::run_4g, hang_allowance_s: 240 },
        Engine { name: "frost", run: run_frost, hang_allowance_s: 120 },
        Engine { name: "lms", run: run_lms, hang_allowance_s: 90 },
        Engine { name: "exchange", run: exchange::run, hang_allowance_s: 40 },
        Engine { name: "apitrace", run: apitrace::run, hang_allowance_s: 20 },
    ]
}

/// Which crrl backend this binary was built with (for evidence files).
pub fn build_description() -> String {
    let mut f: Vec<&str> = Vec::new();
    if cfg!(feature = "w32_backend") {
        f.push("w32_backend");
    }
    if cfg!(feature = "gf255_m51") {
        f.push("gf255_m51");
    }
    if cfg!(feature = "zz32") {
        f.push("zz32");
    }
    if cfg!(feature = "gfb254_x86clmul") {
        f.push("gfb254_x86clmul");
    }
    let mut tf: Vec<&str> = Vec::new();
    if cfg!(target_feature = "avx2") {
        tf.push("avx2");
    }
    if cfg!(target_feature = "pclmulqdq") {
        tf.push("pclmulqdq");
    }
    if cfg!(target_feature = "lzcnt") {
        tf.push("lzcnt");
    }
    if cfg!(target_feature = "sse4.1") {
        tf.push("sse4.1");
    }
    format!(
        "features=[{}] target_features=[{}] debug_assertions={}",
        f.join(","),
        tf.join(","),
        cfg!(debug_assertions)
    )
}
