//! Simulated worlds (engines).
pub mod hash;
pub mod selftest;

use crate::core::RunOut;
use crate::runner::{Engine, Tier};
use crate::tape::Tape;

fn run_hash(t: &mut Tape, tier: Tier, out: &mut RunOut) {
    let cfg = hash::Cfg { max_steps: if tier == Tier::Quick { 40 } else { 90 }, only: None };
    hash::run(t, &cfg, out);
}

pub fn registry() -> Vec<Engine> {
    vec![Engine { name: "hash", run: run_hash, hang_allowance_s: 60 }]
}

/// Which crrl backend this binary was built with (for evidence files).
pub fn build_description() -> String {
    let mut f: Vec<&str> = Vec::new();
    if cfg!(feature = "w32_backend") {
        f.push("w32_backend");
    }
    if cfg!(feature = "gf255_m51") {
        f.push("gf255_m51");
    }
    if cfg!(feature = "zz32") {
        f.push("zz32");
    }
    if cfg!(feature = "gfb254_x86clmul") {
        f.push("gfb254_x86clmul");
    }
    let mut tf: Vec<&str> = Vec::new();
    if cfg!(target_feature = "avx2") {
        tf.push("avx2");
    }
    if cfg!(target_feature = "pclmulqdq") {
        tf.push("pclmulqdq");
    }
    if cfg!(target_feature = "lzcnt") {
        tf.push("lzcnt");
    }
    if cfg!(target_feature = "sse4.1") {
        tf.push("sse4.1");
    }
    format!(
        "features=[{}] target_features=[{}] debug_assertions={}",
        f.join(","),
        tf.join(","),
        cfg!(debug_assertions)
    )
}
