//! API trace workload for the cross-build replay (property C18).
//!
//! A seeded register machine over every public field, scalar and point type,
//! issuing operations whose results the documentation pins down, with
//! operands built only through constructors that exist with the same
//! signature in every backend and biased to boundary values. There is no
//! schedule or fault here: this is seeded trace generation, included because
//! C18 quantifies over API-level traces that no protocol reaches; its oracle
//! (one replayed history must produce one transcript under every build) is
//! the simulator's replay machinery, not a reference computation.

use crate::core::RunOut;
use crate::rng::SimRng;
use crate::runner::Tier;
use crate::tape::Tape;
use crate::util::hex;

const ENG: &str = "apitrace";

/// Boundary-biased byte strings of a given length.
fn bytes_biased(t: &mut Tape, rng: &mut SimRng, len: usize) -> Vec<u8> {
    let mut v = match t.usize(8) {
        0 => vec![0u8; len],
        1 => vec![0xFFu8; len],
        2 => {
            let mut v = vec![0u8; len];
            if len > 0 {
                v[0] = 1 + t.usize(3) as u8;
            }
            v
        }
        3 => {
            // all ones except the top bit(s): 2^(8len-1)-1 and neighbours
            let mut v = vec![0xFFu8; len];
            if len > 0 {
                v[len - 1] = [0x7F, 0x3F, 0x0F, 0x1F][t.usize(4)];
                v[0] = [0xFF, 0xED, 0xEC, 0xEE, 0xFE, 0xDA, 0xDB][t.usize(7)];
            }
            v
        }
        _ => rng.bytes(len),
    };
    if len > 0 && t.chance(1, 6) {
        let i = t.usize(len);
        v[i] ^= 1 << t.usize(8);
    }
    v
}

fn le_add_small(v: &mut [u8], k: u8) {
    let mut c = k as u16;
    for x in v.iter_mut() {
        let s = *x as u16 + c;
        *x = s as u8;
        c = s >> 8;
    }
}

fn le_sub_small(v: &mut [u8], k: u8) {
    let mut bw = k as i16;
    for x in v.iter_mut() {
        let d = *x as i16 - bw;
        if d < 0 {
            *x = (d + 256) as u8;
            bw = 1;
        } else {
            *x = d as u8;
            bw = 0;
        }
    }
}

fn len_biased(t: &mut Tape, natural: usize) -> usize {
    match t.usize(9) {
        0 => 0,
        1 => natural.saturating_sub(1),
        2 => natural + 1,
        3 => 2 * natural,
        4 => t.usize(3 * natural + 2),
        5 => [1, 31, 33, 63, 64, 65, 127, 128, 129, 255, 256, 1000][t.usize(12)],
        _ => natural,
    }
}

fn word(t: &mut Tape, rng: &mut SimRng) -> u64 {
    match t.usize(8) {
        0 => 0,
        1 => 1,
        2 => u64::MAX,
        3 => u64::MAX - t.choose(40),
        4 => 1u64 << t.usize(64),
        5 => (1u64 << 63) - 1 + t.choose(3),
        _ => rng.u64(),
    }
}

macro_rules! status {
    ($out:expr, $name:expr, $w:expr) => {
        $out.status(ENG, $name, $w)
    };
}

/// Prime-field-like types (GF255<*>, ModInt256<*>, gfgen types, GF448, ...).
macro_rules! prime_field_machine {
    ($fname:ident, $T:ty, $name:expr, $raw:tt, mul_small = $ms:tt, w64 = $w64:tt, sqrt = $sq:tt, extras = $ex:tt) => {
        fn $fname(t: &mut Tape, rng: &mut SimRng, out: &mut RunOut, nops: usize) {
            type T = $T;
            let el = <T>::ENC_LEN;
            let mut regs: Vec<T> = vec![<T>::ZERO, <T>::ONE, <T>::ZERO - <T>::ONE];
            out.ev(format_args!("{} MINUS_ONE is -1: {:#x}", $name, <T>::MINUS_ONE.equals(<T>::ZERO - <T>::ONE)));
            regs.push(<T>::MINUS_ONE);
            // operand constructors
            let ncons = 3 + t.usize(4);
            for _ in 0..ncons {
                let v: T = match t.usize(9) {
                    0 => <T>::from_u32(word(t, rng) as u32),
                    1 => <T>::from_u64(word(t, rng)),
                    2 => <T>::from_i32(word(t, rng) as i32),
                    3 => <T>::from_i64(word(t, rng) as i64),
                    4 => <T>::from_u128(((word(t, rng) as u128) << 64) | word(t, rng) as u128),
                    5 => <T>::from_i128((((word(t, rng) as u128) << 64) | word(t, rng) as u128) as i128),
                    6 => {
                        let l = len_biased(t, el);
                        let b = bytes_biased(t, rng, l);
                        let v = <T>::decode_reduce(&b);
                        out.ev(format_args!("{} decode_reduce({}) -> {}", $name, hex(&b), hex(&v.encode())));
                        v
                    }
                    7 => {
                        if $w64 {
                            let mut raw: Vec<u64> = (0..$raw).map(|_| word(t, rng)).collect();
                            if t.chance(1, 3) {
                                // whole-value patterns that independent limbs practically never form: p-1+k, 2p-2+k,
                                // 2^(64N)-1-k, 2^(64N-1)+/-k (raw-word constructors admit values >= p)
                                out.probe("probe.apitrace.raw_words_near_modulus");
                                let m1 = (<T>::ZERO - <T>::ONE).encode();
                                let mut w: Vec<u64> = (0..$raw).map(|i| {
                                    let mut b = [0u8; 8];
                                    let lo = i * 8;
                                    if lo < m1.len() {
                                        let hi = (lo + 8).min(m1.len());
                                        b[..hi - lo].copy_from_slice(&m1[lo..hi]);
                                    }
                                    u64::from_le_bytes(b)
                                }).collect();
                                let k = t.choose(40_000);
                                match t.usize(5) {
                                    0 => {}
                                    1 => {
                                        // double (2p - 2), dropping the carry out of the top word
                                        let mut cy = 0u64;
                                        for x in w.iter_mut() {
                                            let n = (*x << 1) | cy;
                                            cy = *x >> 63;
                                            *x = n;
                                        }
                                    }
                                    2 => w.iter_mut().for_each(|x| *x = u64::MAX),
                                    3 => {
                                        w.iter_mut().for_each(|x| *x = 0);
                                        *w.last_mut().unwrap() = 1u64 << 63;
                                    }
                                    _ => {
                                        w.iter_mut().for_each(|x| *x = u64::MAX);
                                        *w.last_mut().unwrap() = u64::MAX >> 1;
                                    }
                                }
                                // +k or -k with carry / borrow through the words
                                if t.chance(1, 2) {
                                    let mut cy = k;
                                    for x in w.iter_mut() {
                                        let (s, o) = x.overflowing_add(cy);
                                        *x = s;
                                        cy = o as u64;
                                    }
                                } else {
                                    let mut bw = k;
                                    for x in w.iter_mut() {
                                        let (s, o) = x.overflowing_sub(bw);
                                        *x = s;
                                        bw = o as u64;
                                    }
                                }
                                raw = w;
                            }
                            wcons!($T, $raw, raw)
                        } else {
                            <T>::decode_reduce(&bytes_biased(t, rng, el))
                        }
                    }
                    _ => {
                        // strict decoders on boundary byte strings: Option-ness and status are transcript material
                        let l = if t.chance(3, 4) { el } else { len_biased(t, el) };
                        let mut b = bytes_biased(t, rng, l);
                        if t.chance(1, 3) {
                            out.probe("probe.apitrace.decode_modulus_neighbour");
                            // neighbours of the modulus itself: p-3 .. p+3 (p-1 comes from the type's own arithmetic)
                            b = (<T>::ZERO - <T>::ONE).encode().to_vec();
                            let k = t.usize(7);
                            if k >= 2 {
                                le_add_small(&mut b, (k - 2) as u8);
                            } else {
                                le_sub_small(&mut b, (2 - k) as u8);
                            }
                        }
                        let d = <T>::decode(&b);
                        let (v2, st) = <T>::decode_ct(&b);
                        status!(out, concat!($name, ".decode_ct"), st);
                        out.ev(format_args!("{} decode({}) -> {:?} ; decode_ct -> {:#x} {}", $name, hex(&b), d.map(|x| hex(&x.encode())), st, hex(&v2.encode())));
                        match d {
                            Some(x) => x,
                            None => v2,
                        }
                    }
                };
                out.ev(format_args!("{} operand r{} = {}", $name, regs.len(), hex(&v.encode())));
                regs.push(v);
            }
            for _ in 0..nops {
                let (ia, ib) = (t.usize(regs.len()), t.usize(regs.len()));
                let a = regs[ia];
                let b = regs[ib];
                let op = t.usize(27);
                let r: T = match op {
                    24..=26 => extra_ops!($ex, $T, $name, a, b, regs, t, rng, out),
                    0 => a + b,
                    1 => a - b,
                    2 => a * b,
                    3 => a.square(),
                    4 => -a,
                    5 => a.half(),
                    6 => a.mul2(),
                    7 => a.mul4(),
                    8 => a.mul8(),
                    9 => a.mul16(),
                    10 => a.mul32(),
                    11 => {
                        let n = if t.chance(1, 10) { [31u32, 32, 33, 64, 255][t.usize(5)] } else { t.usize(6) as u32 };
                        a.xsquare(n)
                    }
                    12 => {
                        // division (includes inversion and division by zero, which is documented to yield zero)
                        a / b
                    }
                    13 if $sq => {
                        // (not called where the documentation says it is not implemented: moduli = 1 mod 8)
                        let (y, st) = a.sqrt();
                        status!(out, concat!($name, ".sqrt"), st);
                        out.ev(format_args!("{} sqrt({}) -> {:#x} {}", $name, hex(&a.encode()), st, hex(&y.encode())));
                        y
                    }
                    14 => {
                        let l = a.legendre();
                        out.ev(format_args!("{} legendre({}) -> {}", $name, hex(&a.encode()), l));
                        a
                    }
                    15 => {
                        let z = a.iszero();
                        let e = a.equals(b);
                        status!(out, concat!($name, ".iszero"), z);
                        status!(out, concat!($name, ".equals"), e);
                        out.ev(format_args!("{} iszero {:#x} equals {:#x}", $name, z, e));
                        a
                    }
                    16 => {
                        let c = if t.chance(1, 2) { 0xFFFF_FFFFu32 } else { 0 };
                        <T>::select(&a, &b, c)
                    }
                    17 => {
                        let c = if t.chance(1, 2) { 0xFFFF_FFFFu32 } else { 0 };
                        let (mut x, mut y) = (a, b);
                        <T>::cswap(&mut x, &mut y, c);
                        regs.push(y);
                        x
                    }
                    18 => {
                        let c = if t.chance(1, 2) { 0xFFFF_FFFFu32 } else { 0 };
                        let mut x = a;
                        x.set_cond(&b, c);
                        x
                    }
                    19 => {
                        if $ms {
                            msmall!($T, a, word(t, rng) as u32, $ms)
                        } else {
                            a + a + a
                        }
                    }
                    20 => {
                        // encode/decode round trip
                        let e = a.encode();
                        match <T>::decode(&e) {
                            Some(x) => x,
                            None => {
                                out.ev(format_args!("{} decode(encode(x)) refused {}", $name, hex(&e)));
                                a
                            }
                        }
                    }
                    21 if t.chance(1, 6) => {
                        // slice lengths around the internal batch size (200), zeros at the batch edges, all zeros
                        out.probe("probe.apitrace.batch_invert_long_slice");
                        let len = [0usize, 1, 2, 199, 200, 201, 400, 401][t.usize(8)];
                        let zeros = t.usize(4);
                        let mut v: Vec<T> = (0..len).map(|i| regs[i % regs.len()] + <T>::from_u32(i as u32)).collect();
                        for (i, x) in v.iter_mut().enumerate() {
                            let z = match zeros {
                                0 => false,
                                1 => i == 0 || i == 199 || i == 200 || i + 1 == len,
                                2 => i % 200 == 0,
                                _ => true,
                            };
                            if z {
                                *x = <T>::ZERO;
                            }
                        }
                        let before = v.clone();
                        <T>::batch_invert(&mut v);
                        // one folded line: every element must be the inverse (0 for 0) of what it was
                        let mut ok = 0xFFFF_FFFFu32;
                        let mut acc = <T>::ZERO;
                        for (x, y) in before.iter().zip(v.iter()) {
                            let p = *x * *y;
                            ok &= p.equals(<T>::ONE) | (x.iszero() & y.iszero());
                            acc = acc * <T>::from_u32(3) + *y;
                        }
                        out.ev(format_args!("{} batch_invert len {} zeros-mode {} all-inverses {:#x} fold {}", $name, len, zeros, ok, hex(&acc.encode())));
                        acc
                    }
                    21 => {
                        let mut v = vec![a, b, a * b, a + <T>::ONE, <T>::ZERO];
                        <T>::batch_invert(&mut v);
                        for x in v.iter() {
                            out.ev(format_args!("{} batch_invert -> {}", $name, hex(&x.encode())));
                        }
                        v[0]
                    }
                    22 if t.chance(1, 3) => {
                        // by-reference operators and compound assignments (separate trait impls)
                        out.probe("probe.apitrace.reference_and_assign_operators");
                        let mut r = a;
                        r += &b;
                        r -= b;
                        r *= &a;
                        r /= &b;
                        r += a;
                        r -= &b;
                        r *= b;
                        r /= a;
                        let s = &r + &a;
                        let u2 = &s - &b;
                        let w = &u2 * &a;
                        let z = &w / &b;
                        -&z + a - &b + (&a * b) + (a / &b)
                    }
                    22 => a * a * a - b * b,
                    _ => (a + b) * (a - b),
                };
                out.ev(format_args!("{} op{}(r{}, r{}) -> {}", $name, op, ia, ib, hex(&r.encode())));
                regs.push(r);
                if regs.len() > 24 {
                    regs.remove(3);
                }
            }
        }
    };
}

/// Operations that only some of the field types have (the same set in every backend of that type).
macro_rules! extra_ops {
    (@sqrt_ext $T:ty, $name:expr, $a:expr, $out:expr) => {{
        $out.probe("probe.apitrace.sqrt_ext");
        let (y, st) = $a.sqrt_ext();
        status!($out, concat!($name, ".sqrt_ext"), st);
        // a non-residue yields a root of -x, 2x or -2x: which one is backend business, that it is one of them is not
        let y2 = y * y;
        let valid = if st != 0 { y2.equals($a) } else { y2.equals(-$a) | y2.equals($a + $a) | y2.equals(-($a + $a)) };
        let low = y.encode()[0] & 1;
        $out.ev(format_args!("{} sqrt_ext({}) -> {:#x} valid {:#x} lsb {} {}", $name, hex(&$a.encode()), st, valid, low,
            if st != 0 { hex(&y.encode()) } else { String::new() }));
        if st != 0 { y } else { $a }
    }};
    (@enc32 $T:ty, $name:expr, $a:expr, $t:expr, $rng:expr, $out:expr) => {{
        $out.probe("probe.apitrace.encode32_decode32");
        let e = $a.encode32();
        let l = if $t.chance(3, 4) { 32 } else { len_biased($t, 32) };
        let b = bytes_biased($t, $rng, l);
        let (v, st) = <$T>::decode32(&b);
        status!($out, concat!($name, ".decode32"), st);
        $out.ev(format_args!("{} encode32 {} ; decode32({}) -> {:#x} {}", $name, hex(&e), hex(&b), st, hex(&v.encode())));
        let (w, st2) = <$T>::decode32(&e);
        status!($out, concat!($name, ".decode32"), st2);
        $out.ev(format_args!("{} decode32(encode32(x)) -> {:#x} {}", $name, st2, hex(&w.encode())));
        v
    }};
    (@inplace $T:ty, $name:expr, $a:expr, $t:expr, $rng:expr, $out:expr) => {{
        // the in-place variants are public API of their own (the by-value forms are not always wrappers of them)
        $out.probe("probe.apitrace.in_place_variants");
        let mut r = $a;
        match $t.usize(4) {
            0 => r.set_neg(),
            1 => r.set_square(),
            2 => {
                let l = if $t.chance(3, 4) { <$T>::ENC_LEN } else { len_biased($t, <$T>::ENC_LEN) };
                let bb = bytes_biased($t, $rng, l);
                let st = r.set_decode_ct(&bb);
                status!($out, concat!($name, ".set_decode_ct"), st);
                $out.ev(format_args!("{} set_decode_ct({}) -> {:#x}", $name, hex(&bb), st));
            }
            _ => {
                let l = len_biased($t, <$T>::ENC_LEN);
                let bb = bytes_biased($t, $rng, l);
                r.set_decode_reduce(&bb);
                $out.ev(format_args!("{} set_decode_reduce({}B)", $name, bb.len()));
            }
        }
        r
    }};
    (@w64be4 $T:ty, $name:expr, $t:expr, $rng:expr, $out:expr) => {{
        let (w3, w2, w1, w0) = (word($t, $rng), word($t, $rng), word($t, $rng), word($t, $rng));
        let v = <$T>::from_w64be(w3, w2, w1, w0);
        let c = <$T>::from_w64le(w0, w1, w2, w3);
        // the const constructors are separate code (compile-time arithmetic)
        let k1 = <$T>::w64le(w0, w1, w2, w3);
        let k2 = <$T>::w64be(w3, w2, w1, w0);
        $out.ev(format_args!("{} const constructors agree: {:#x} {:#x}", $name, v.equals(k1), v.equals(k2)));
        $out.ev(format_args!("{} from_w64be({:#x},{:#x},{:#x},{:#x}) -> {} same_as_le {:#x}", $name, w3, w2, w1, w0, hex(&v.encode()), v.equals(c)));
        v
    }};
    (@w64be7 $T:ty, $name:expr, $t:expr, $rng:expr, $out:expr) => {{
        let mut w = [0u64; 7];
        for x in w.iter_mut() {
            *x = word($t, $rng);
        }
        let v = <$T>::from_w64be(w);
        let mut wl = w;
        wl.reverse();
        let c = <$T>::from_w64le(wl);
        let k1 = <$T>::w64le(wl);
        let k2 = <$T>::w64be(w);
        $out.ev(format_args!("{} const constructors agree: {:#x} {:#x}", $name, v.equals(k1), v.equals(k2)));
        $out.ev(format_args!("{} from_w64be({:x?}) -> {} same_as_le {:#x}", $name, w, hex(&v.encode()), v.equals(c)));
        v
    }};
    (gf255, $T:ty, $name:expr, $a:expr, $b:expr, $regs:expr, $t:expr, $rng:expr, $out:expr) => {{
        match $t.usize(10) {
            0 => extra_ops!(@sqrt_ext $T, $name, $a, $out),
            1 => extra_ops!(@enc32 $T, $name, $a, $t, $rng, $out),
            2 => extra_ops!(@w64be4 $T, $name, $t, $rng, $out),
            8 => extra_ops!(@inplace $T, $name, $a, $t, $rng, $out),
            9 => {
                let mut r = $a;
                match $t.usize(6) {
                    0 => r.set_mul2(),
                    1 => r.set_mul4(),
                    2 => r.set_mul8(),
                    3 => r.set_mul16(),
                    4 => r.set_mul32(),
                    _ => r.set_mul_small(word($t, $rng) as u32),
                }
                r
            }
            5..=7 => {
                // "not reduced" intermediates: only what the documentation allows is done with them
                // (operand of a multiplication, square, xsquare); the reduced results are transcript material
                $out.probe("probe.apitrace.noreduce_family");
                let c3 = $regs[$t.usize($regs.len())];
                let which = $t.usize(6);
                let (u, v) = match which {
                    0 => ($a.add_noreduce(&$b), $a.sub_noreduce(&$b)),
                    1 => ($a.mul2_noreduce(), $b.sub_noreduce(&$a)),
                    2 => ($a.sub_noreduce(&$b), c3.sub_noreduce(&$a)),
                    3 => $a.mul2add_mul2sub_noreduce(&$b),
                    4 => $a.add_addsub_noreduce(&$b, &c3),
                    _ => $a.sub_subadd2_noreduce(&$b, &c3),
                };
                let r1 = c3 * u;
                let r2 = u * v;
                let r3 = v.square();
                let r4 = u.xsquare(1 + $t.usize(3) as u32);
                let r5 = v * c3;
                $out.ev(format_args!("{} noreduce{} -> {} {} {} {} {}", $name, which, hex(&r1.encode()), hex(&r2.encode()), hex(&r3.encode()), hex(&r4.encode()), hex(&r5.encode())));
                r2
            }
            k => {
                // constant-time table lookups; an index outside 0..=15 must give zeros
                $out.probe("probe.apitrace.gf255_table_lookup");
                let n = if k == 3 { 48 } else { 64 };
                let tab: Vec<$T> = (0..n).map(|i| $regs[i % $regs.len()] + <$T>::from_u32(i as u32)).collect();
                let j = match $t.usize(8) {
                    0 => 0u32,
                    1 => 15,
                    2 => 16,
                    3 => 0xFFFF_FFFF,
                    4 => 0x8000_0000 | $t.usize(16) as u32,
                    5 => 16 + $t.usize(240) as u32,
                    _ => $t.usize(16) as u32,
                };
                let r: Vec<$T> = if k == 3 {
                    let tb: &[$T; 48] = (&tab[..]).try_into().unwrap();
                    <$T>::lookup16_x3(tb, j).to_vec()
                } else {
                    let tb: &[$T; 64] = (&tab[..]).try_into().unwrap();
                    <$T>::lookup16_x4(tb, j).to_vec()
                };
                $out.ev(format_args!("{} lookup16_x{}(j={:#x}) -> {}", $name, r.len(), j, r.iter().map(|x| hex(&x.encode())).collect::<Vec<_>>().join(",")));
                r[r.len() - 1]
            }
        }
    }};
    (gf448, $T:ty, $name:expr, $a:expr, $b:expr, $regs:expr, $t:expr, $rng:expr, $out:expr) => {{
        match $t.usize(4) {
            0 => extra_ops!(@sqrt_ext $T, $name, $a, $out),
            1 => extra_ops!(@inplace $T, $name, $a, $t, $rng, $out),
            2 => {
                let mut r = $a;
                r.set_mul_small(word($t, $rng) as u32);
                r
            }
            _ => extra_ops!(@w64be7 $T, $name, $t, $rng, $out),
        }
    }};
    (gfgen7, $T:ty, $name:expr, $a:expr, $b:expr, $regs:expr, $t:expr, $rng:expr, $out:expr) => {{
        match $t.usize(5) {
            0 => extra_ops!(@sqrt_ext $T, $name, $a, $out),
            1 => $a.mul3(),
            2 => extra_ops!(@inplace $T, $name, $a, $t, $rng, $out),
            3 => {
                let mut r = $a;
                match $t.usize(4) {
                    0 => r.set_half(),
                    1 => r.set_invert(),
                    2 => r.set_mul_small(word($t, $rng) as u32),
                    _ => r.set_xsquare($t.usize(6) as u32),
                }
                r
            }
            _ => extra_ops!(@w64be7 $T, $name, $t, $rng, $out),
        }
    }};
    (modint, $T:ty, $name:expr, $a:expr, $b:expr, $regs:expr, $t:expr, $rng:expr, $out:expr) => {{
        match $t.usize(6) {
            0 => $a.mul3(),
            1 => extra_ops!(@enc32 $T, $name, $a, $t, $rng, $out),
            2 => extra_ops!(@w64be4 $T, $name, $t, $rng, $out),
            4 => extra_ops!(@inplace $T, $name, $a, $t, $rng, $out),
            5 => {
                let mut r = $a;
                r.set_xsquare($t.usize(6) as u32);
                r
            }
            _ => {
                let l = if $t.chance(3, 4) { 32 } else { len_biased($t, 32) };
                let bb = bytes_biased($t, $rng, l);
                let mut v = $a;
                let st = v.set_decode32(&bb);
                status!($out, concat!($name, ".set_decode32"), st);
                $out.ev(format_args!("{} set_decode32({}) -> {:#x} {}", $name, hex(&bb), st, hex(&v.encode())));
                v
            }
        }
    }};
    (field256, $T:ty, $name:expr, $a:expr, $b:expr, $regs:expr, $t:expr, $rng:expr, $out:expr) => {{
        match $t.usize(4) {
            0 => $a.mul3(),
            1 => extra_ops!(@enc32 $T, $name, $a, $t, $rng, $out),
            2 => extra_ops!(@inplace $T, $name, $a, $t, $rng, $out),
            _ => extra_ops!(@w64be4 $T, $name, $t, $rng, $out),
        }
    }};
    (secp, $T:ty, $name:expr, $a:expr, $b:expr, $regs:expr, $t:expr, $rng:expr, $out:expr) => {{
        match $t.usize(6) {
            0 => $a.mul3(),
            1 => $a.mul21(),
            2 => extra_ops!(@enc32 $T, $name, $a, $t, $rng, $out),
            3 => extra_ops!(@inplace $T, $name, $a, $t, $rng, $out),
            4 => {
                let mut r = $a;
                r.set_mul21();
                r
            }
            _ => extra_ops!(@w64be4 $T, $name, $t, $rng, $out),
        }
    }};
}

macro_rules! wcons {
    ($T:ty, 4, $raw:expr) => {
        <$T>::from_w64le($raw[0], $raw[1], $raw[2], $raw[3])
    };
    ($T:ty, 7, $raw:expr) => {
        <$T>::from_w64le([$raw[0], $raw[1], $raw[2], $raw[3], $raw[4], $raw[5], $raw[6]])
    };
}

macro_rules! msmall {
    ($T:ty, $a:expr, $w:expr, true) => {
        $a.mul_small($w)
    };
    ($T:ty, $a:expr, $w:expr, false) => {
        $a
    };
}

use crrl::field::{GF25519, GF255e, GF255s, GF448, GFp256, GFsecp256k1};

prime_field_machine!(m_gf25519, GF25519, "GF25519", 4, mul_small = true, w64 = true, sqrt = true, extras = gf255);
prime_field_machine!(m_gf255e, GF255e, "GF255e", 4, mul_small = true, w64 = true, sqrt = true, extras = gf255);
prime_field_machine!(m_gf255s, GF255s, "GF255s", 4, mul_small = true, w64 = true, sqrt = true, extras = gf255);
prime_field_machine!(m_gf448, GF448, "GF448", 7, mul_small = true, w64 = true, sqrt = true, extras = gf448);
prime_field_machine!(m_gfp256, GFp256, "GFp256", 4, mul_small = false, w64 = false, sqrt = true, extras = field256);
prime_field_machine!(m_gfsecp256k1, GFsecp256k1, "GFsecp256k1", 4, mul_small = false, w64 = false, sqrt = true, extras = secp);
prime_field_machine!(m_sc25519, crrl::ed25519::Scalar, "Scalar25519", 4, mul_small = false, w64 = false, sqrt = true, extras = modint);
prime_field_machine!(m_scp256, crrl::p256::Scalar, "ScalarP256", 4, mul_small = false, w64 = false, sqrt = false, extras = modint);
prime_field_machine!(m_scsecp, crrl::secp256k1::Scalar, "ScalarSecp256k1", 4, mul_small = false, w64 = false, sqrt = false, extras = modint);
prime_field_machine!(m_scjq255e, crrl::jq255e::Scalar, "ScalarJq255e", 4, mul_small = false, w64 = false, sqrt = true, extras = modint);
prime_field_machine!(m_scjq255s, crrl::jq255s::Scalar, "ScalarJq255s", 4, mul_small = false, w64 = false, sqrt = true, extras = modint);
prime_field_machine!(m_scgls254, crrl::gls254::Scalar, "ScalarGls254", 4, mul_small = false, w64 = false, sqrt = true, extras = modint);
prime_field_machine!(m_sc448, crrl::ed448::Scalar, "Scalar448", 7, mul_small = true, w64 = true, sqrt = true, extras = gfgen7);

/// Point operations that only some of the curves have.
macro_rules! pex {
    (@small $name:expr, $p:expr, $t:expr, $rng:expr, $out:expr) => {{
        let n = word($t, $rng);
        let mut r = $p;
        if $t.chance(1, 3) {
            // the in-place forms (public API of their own)
            $out.probe("probe.apitrace.point_in_place_variants");
            let sb = bytes_biased($t, $rng, 40);
            let sc = Scalar::decode_reduce(&sb);
            match $t.usize(6) {
                0 => r.set_double(),
                1 => r.set_xdouble($t.usize(5) as u32),
                2 => r.set_mul(&sc),
                3 => r.set_mulgen(&sc),
                4 => r.set_neg(),
                _ => {
                    let sb2 = bytes_biased($t, $rng, 40);
                    r.set_mul_add_mulgen_vartime(&sc, &Scalar::decode_reduce(&sb2));
                }
            }
        } else if $t.chance(1, 2) {
            r.set_mul_small(n);
            $out.ev(format_args!("{} mul_small({:#x})", $name, n));
        } else {
            let ctl = if $t.chance(1, 2) { 0xFFFF_FFFFu32 } else { 0 };
            r.set_condneg(ctl);
            $out.ev(format_args!("{} condneg({:#x})", $name, ctl));
        }
        r
    }};
    (grp, $name:expr, $p:expr, $q:expr, $s:expr, $u:expr, $t:expr, $rng:expr, $out:expr) => {{
        let ctl = if $t.chance(1, 2) { 0xFFFF_FFFFu32 } else { 0 };
        let mut r = $p;
        match $t.usize(6) {
            0 => r.set_condneg(ctl),
            1 => r.set_double(),
            2 => r.set_xdouble($t.usize(5) as u32),
            3 => r.set_mulgen(&$s),
            4 => r.set_neg(),
            _ => r.set_cond(&$q, ctl),
        }
        r
    }};
    (ed25519, $name:expr, $p:expr, $q:expr, $s:expr, $u:expr, $t:expr, $rng:expr, $out:expr) => {{
        match $t.usize(3) {
            0 => {
                let (a, b) = ($p.has_low_order(), $p.is_in_subgroup());
                status!($out, concat!($name, ".has_low_order"), a);
                status!($out, concat!($name, ".is_in_subgroup"), b);
                $out.ev(format_args!("{} low_order {:#x} in_subgroup {:#x}", $name, a, b));
                $p
            }
            1 => {
                let (n, d) = $p.to_montgomery_u_projective();
                $out.ev(format_args!("{} montgomery u {} projective ratio {}", $name, hex(&$p.to_montgomery_u().encode()), hex(&(n / d).encode())));
                $p
            }
            _ => pex!(@small $name, $p, $t, $rng, $out),
        }
    }};
    (ed448, $name:expr, $p:expr, $q:expr, $s:expr, $u:expr, $t:expr, $rng:expr, $out:expr) => {{
        match $t.usize(3) {
            0 => {
                let (a, b) = ($p.has_low_order(), $p.is_in_subgroup());
                status!($out, concat!($name, ".has_low_order"), a);
                status!($out, concat!($name, ".is_in_subgroup"), b);
                $out.ev(format_args!("{} low_order {:#x} in_subgroup {:#x}", $name, a, b));
                $p
            }
            1 => {
                $out.ev(format_args!("{} montgomery u {}", $name, hex(&$p.to_montgomery_u().encode())));
                $p
            }
            _ => pex!(@small $name, $p, $t, $rng, $out),
        }
    }};
    // curve points with special coordinates as starting operands
    (@init p256, $pts:expr) => {{
        // the two points with x = 0 (the x-only arithmetic of truncated verification has a branch for them)
        for tag in [2u8, 3u8] {
            let mut e = [0u8; 33];
            e[0] = tag;
            if let Some(p) = Point::decode(&e) {
                $pts.push(p);
            }
        }
    }};
    (@init ed25519, $pts:expr) => {{
        // points of order 2, 4, 8 and mixed order (generator + torsion): the group law must cope with them
        for e in <crate::world::suite::Ed25519 as crate::world::suite::Suite>::bad_points() {
            if let Some(p) = Point::decode(&e) {
                $pts.push(p);
                $pts.push(p + Point::BASE);
            }
        }
        $pts.truncate(10);
    }};
    (@init ed448, $pts:expr) => {{
        for e in <crate::world::suite::Ed448 as crate::world::suite::Suite>::bad_points() {
            if let Some(p) = Point::decode(&e) {
                $pts.push(p);
                $pts.push(p + Point::BASE);
            }
        }
        $pts.truncate(10);
    }};
    (@init $other:tt, $pts:expr) => {{}};
    (@proj $F:ty, $name:expr, $p:expr, $t:expr, $rng:expr, $out:expr) => {{
        // projective coordinates are one of several admissible representations: only what comes back through
        // set_projective / from_projective / set_affine (status words, encodings) is transcript material
        $out.probe("probe.apitrace.projective_affine_round_trips");
        let (x, y, z) = $p.to_projective();
        let lam = <$F>::from_u64(word($t, $rng) | 1);
        let mut a = Point::NEUTRAL;
        let s1 = a.set_projective(x * lam, y * lam, z * lam);
        let mut b = Point::NEUTRAL;
        let s2 = b.set_projective(x, y + <$F>::ONE, z);
        let mut c = Point::NEUTRAL;
        let s3 = c.set_projective(x, y, <$F>::ZERO);
        let d = Point::from_projective(x * lam, y * lam, z * lam);
        let (ax, ay, ast) = $p.to_affine();
        let mut e = Point::NEUTRAL;
        let s4 = e.set_affine(ax, ay);
        let mut f = Point::NEUTRAL;
        let s5 = f.set_affine(ax + <$F>::ONE, ay);
        for (nm, st) in [("set_projective", s1), ("set_projective", s2), ("set_projective", s3), ("set_affine", s4), ("set_affine", s5), ("to_affine", ast)] {
            $out.status(ENG, nm, st);
        }
        $out.ev(format_args!("{} projective: scaled {:#x} {} ; off-curve {:#x} {} ; Z=0 {:#x} {} ; from_projective {:?} ; set_affine {:#x} {} ; off {:#x} {}", $name,
            s1, hex(&a.encode_compressed()), s2, hex(&b.encode_compressed()), s3, hex(&c.encode_compressed()), d.map(|q| hex(&q.encode_compressed())),
            s4, hex(&e.encode_compressed()), s5, hex(&f.encode_compressed())));
        a
    }};
    (p256, $name:expr, $p:expr, $q:expr, $s:expr, $u:expr, $t:expr, $rng:expr, $out:expr) => {{
        match $t.usize(4) {
            3 => pex!(@proj crrl::field::GFp256, $name, $p, $t, $rng, $out),
            0 => {
                let (x, y, st) = $p.to_affine();
                status!($out, concat!($name, ".to_affine"), st);
                let back = Point::from_affine(x, y);
                let off = Point::from_affine(x, y + crrl::field::GFp256::ONE);
                $out.ev(format_args!("{} to_affine {:#x} {} {} ; from_affine -> {:?} ; off-curve -> {:?}", $name, st, hex(&x.encode()), hex(&y.encode()),
                    back.map(|z| hex(&z.encode_compressed())), off.map(|z| hex(&z.encode_compressed()))));
                $p
            }
            1 => {
                // x-only sequences (the machinery behind truncated verification), public data
                $out.probe("probe.apitrace.p256_x_sequence");
                let (x0, x1, xq) = Point::to_x_affine_diff($p, $q);
                let n = $t.usize(7);
                let mut xx = vec![crrl::field::GFp256::ZERO; n];
                let (xn, xn1) = Point::x_sequence_vartime(x0, x1, xq, &mut xx);
                $out.ev(format_args!("{} x_sequence x0 {} x1 {} xq {} -> [{}] then {} {}", $name, hex(&x0.encode()), hex(&x1.encode()), hex(&xq.encode()),
                    xx.iter().map(|z| hex(&z.encode())).collect::<Vec<_>>().join(","), hex(&xn.encode()), hex(&xn1.encode())));
                $p
            }
            _ => pex!(@small $name, $p, $t, $rng, $out),
        }
    }};
    (sec, $name:expr, $p:expr, $q:expr, $s:expr, $u:expr, $t:expr, $rng:expr, $out:expr) => {{
        match $t.usize(3) {
            2 => pex!(@proj crrl::field::GFsecp256k1, $name, $p, $t, $rng, $out),
            0 => {
                let (x, y, st) = $p.to_affine();
                status!($out, concat!($name, ".to_affine"), st);
                let back = Point::from_affine(x, y);
                $out.ev(format_args!("{} to_affine {:#x} {} {} ; from_affine -> {:?}", $name, st, hex(&x.encode()), hex(&y.encode()), back.map(|z| hex(&z.encode_compressed()))));
                $p
            }
            _ => pex!(@small $name, $p, $t, $rng, $out),
        }
    }};
    (jq, $name:expr, $p:expr, $q:expr, $s:expr, $u:expr, $t:expr, $rng:expr, $out:expr) => {{
        match $t.usize(2) {
            0 => {
                let k = ((word($t, $rng) as u128) << 64) | word($t, $rng) as u128;
                $out.probe("probe.apitrace.jq255_mul128");
                $out.ev(format_args!("{} mul128_add_mulgen_vartime({:#x})", $name, k));
                $p.mul128_add_mulgen_vartime(k, &$s)
            }
            _ => pex!(@small $name, $p, $t, $rng, $out),
        }
    }};
    (gls, $name:expr, $p:expr, $q:expr, $s:expr, $u:expr, $t:expr, $rng:expr, $out:expr) => {{
        match $t.usize(4) {
            0 => {
                let neg = if $t.chance(1, 2) { 0xFFFF_FFFFu32 } else { 0 };
                $p.zeta(neg)
            }
            1 => {
                let (u0, u1) = (word($t, $rng), word($t, $rng));
                $out.ev(format_args!("{} mul64mu_add_mulgen_vartime({:#x}, {:#x})", $name, u0, u1));
                $p.mul64mu_add_mulgen_vartime(u0, u1, &$s)
            }
            2 => {
                // which valid split is returned is the backend's business; that it is valid (and odd) is not
                $out.probe("probe.apitrace.gls254_split_mu");
                let odd = $t.chance(1, 2);
                let (n0, s0, n1, s1) = if odd { Point::split_mu_odd(&$s) } else { Point::split_mu(&$s) };
                status!($out, concat!($name, ".split_mu.sign0"), s0);
                status!($out, concat!($name, ".split_mu.sign1"), s1);
                let mut k0 = Scalar::from_u128(n0);
                let mut k1 = Scalar::from_u128(n1);
                if s0 != 0 { k0 = -k0; }
                if s1 != 0 { k1 = -k1; }
                let valid = (k0 + k1 * Scalar::MU).equals($s);
                let small = (n0 >> 127) == 0 || odd;
                $out.ev(format_args!("{} split_mu(odd={}) valid {:#x} small {} oddness {} {}", $name, odd, valid, small, if odd { n0 & 1 } else { 1 }, if odd { n1 & 1 } else { 1 }));
                $p
            }
            _ => pex!(@small $name, $p, $t, $rng, $out),
        }
    }};
}

/// Group machines: add / sub / double / neg / mul / mulgen / encode / decode
/// / equals / isneutral / double-scalar multiplication.
macro_rules! point_machine {
    ($fname:ident, $m:ident, $name:expr, $enc:ident, $declen:expr, $slen:expr, $pk:tt) => {
        fn $fname(t: &mut Tape, rng: &mut SimRng, out: &mut RunOut, nops: usize) {
            use crrl::$m::{Point, Scalar};
            let mut pts: Vec<Point> = vec![Point::NEUTRAL, Point::BASE];
            pex!(@init $pk, pts);
            let mut scs: Vec<Scalar> = vec![Scalar::ZERO, Scalar::ONE, Scalar::ZERO - Scalar::ONE];
            for _ in 0..2 + t.usize(3) {
                let l = len_biased(t, $slen);
                let b = bytes_biased(t, rng, l);
                scs.push(Scalar::decode_reduce(&b));
            }
            // structured scalars: +/- m * 2^(32 j) with a boundary-biased 64-bit m (multiples of large powers of
            // two, values just below / above them, and their negations: the operands on which scalar recoding,
            // endomorphism splitting and window lookups take their rare paths)
            for _ in 0..1 + t.usize(3) {
                let m = word(t, rng);
                let j = t.usize(8);
                let mut b = vec![0u8; 40];
                b[4 * j..4 * j + 8].copy_from_slice(&m.to_le_bytes());
                let mut s = Scalar::decode_reduce(&b);
                match t.usize(4) {
                    0 => {}
                    1 => s = -s,
                    2 => s = s - Scalar::ONE,
                    _ => s = -s + Scalar::ONE,
                }
                scs.push(s);
            }
            for _ in 0..nops {
                let p = pts[t.usize(pts.len())];
                let q = pts[t.usize(pts.len())];
                let s = scs[t.usize(scs.len())];
                let u = scs[t.usize(scs.len())];
                let op = t.usize(15);
                let r: Point = match op {
                    12..=14 => pex!($pk, $name, p, q, s, u, t, rng, out),
                    0 => p + q,
                    1 => p - q,
                    2 => p.double(),
                    3 => -p,
                    4 => p * s,
                    5 => Point::mulgen(&s),
                    6 => {
                        let n = if t.chance(1, 10) { [31u32, 32, 33, 64, 255][t.usize(5)] } else { t.usize(5) as u32 };
                        p.xdouble(n)
                    }
                    7 => {
                        // decode of the encoding, and of a damaged encoding
                        let mut e = p.$enc().to_vec();
                        if t.chance(1, 2) {
                            let i = t.usize(e.len());
                            e[i] ^= 1 << t.usize(8);
                        }
                        let d = Point::decode(&e);
                        out.ev(format_args!("{} decode({}) -> {:?}", $name, hex(&e), d.map(|x| hex(&x.$enc()))));
                        d.unwrap_or(p)
                    }
                    8 => {
                        let e1 = p.equals(q);
                        let e2 = p.isneutral();
                        status!(out, concat!($name, ".equals"), e1);
                        status!(out, concat!($name, ".isneutral"), e2);
                        out.ev(format_args!("{} equals {:#x} isneutral {:#x}", $name, e1, e2));
                        p
                    }
                    9 => p.mul_add_mulgen_vartime(&s, &u),
                    10 => {
                        let c = if t.chance(1, 2) { 0xFFFF_FFFFu32 } else { 0 };
                        Point::select(&p, &q, c)
                    }
                    _ => (p + q).double() - q * u,
                };
                out.ev(format_args!("{} op{} -> {}", $name, op, hex(&r.$enc())));
                pts.push(r);
                if pts.len() > 12 {
                    pts.remove(2);
                }
            }
            let _ = $declen;
        }
    };
}

point_machine!(p_ed25519, ed25519, "ed25519.Point", encode, 32, 32, ed25519);
point_machine!(p_ed448, ed448, "ed448.Point", encode, 57, 56, ed448);
point_machine!(p_p256, p256, "p256.Point", encode_compressed, 33, 32, p256);
point_machine!(p_secp256k1, secp256k1, "secp256k1.Point", encode_compressed, 33, 32, sec);
point_machine!(p_jq255e, jq255e, "jq255e.Point", encode, 32, 32, jq);
point_machine!(p_jq255s, jq255s, "jq255s.Point", encode, 32, 32, jq);
point_machine!(p_gls254, gls254, "gls254.Point", encode, 32, 32, gls);
point_machine!(p_ristretto255, ristretto255, "ristretto255.Point", encode, 32, 32, grp);
point_machine!(p_decaf448, decaf448, "decaf448.Point", encode, 56, 56, grp);

/// Binary fields GF(2^127) and GF(2^254).
fn m_gfb(t: &mut Tape, rng: &mut SimRng, out: &mut RunOut, nops: usize) {
    use crrl::field::{GFb127, GFb254};
    let mut r127: Vec<GFb127> = vec![GFb127::ZERO, GFb127::ONE];
    let mut r254: Vec<GFb254> = vec![GFb254::ZERO, GFb254::ONE, GFb254::U];
    for _ in 0..3 + t.usize(3) {
        let b = bytes_biased(t, rng, 16);
        let (v, st) = GFb127::decode_ct(&b);
        status!(out, "GFb127.decode_ct", st);
        out.ev(format_args!("GFb127 decode_ct({}) -> {:#x} {}", hex(&b), st, hex(&v.encode())));
        r127.push(v);
        let l = if t.chance(3, 4) { 32 } else { len_biased(t, 32) };
        let mut b = bytes_biased(t, rng, l);
        if b.len() == 32 && t.chance(1, 2) {
            // canonical halves (bit 127 of each clear): otherwise three quarters of the operands fail to decode
            b[15] &= 0x7F;
            b[31] &= 0x7F;
        }
        let (v, st) = GFb254::decode_ct(&b);
        status!(out, "GFb254.decode_ct", st);
        let d = GFb254::decode(&b);
        out.ev(format_args!("GFb254 decode_ct({}) -> {:#x} {} ; decode -> {:?}", hex(&b), st, hex(&v.encode()), d.map(|x| hex(&x.encode()))));
        r254.push(v);
    }
    for _ in 0..nops {
        let a = r254[t.usize(r254.len())];
        let b = r254[t.usize(r254.len())];
        let x = r127[t.usize(r127.len())];
        let y = r127[t.usize(r127.len())];
        let op = t.usize(28);
        match op {
            26 => {
                // GF(2^127): conditional operations, repeated squaring, predicates, strict decoding, - and unary -
                out.probe("probe.apitrace.gfb_conditional_and_inplace");
                let ctl = if t.chance(1, 2) { 0xFFFF_FFFFu32 } else { 0 };
                let mut r = x;
                r.set_cond(&y, ctl);
                let s = GFb127::select(&x, &y, ctl);
                let (mut p1, mut p2) = (x, y);
                GFb127::cswap(&mut p1, &mut p2, ctl);
                let xs = x.xsquare(t.usize(6) as u32);
                let (e, z) = (x.equals(y), x.iszero());
                status!(out, "GFb127.equals", e);
                status!(out, "GFb127.iszero", z);
                let bl = if t.chance(3, 4) { 16 } else { len_biased(t, 16) };
                let bb = bytes_biased(t, rng, bl);
                let d = GFb127::decode(&bb);
                let w = (x - y) + (-x);
                out.ev(format_args!("GFb127 cond {} select {} cswap {} {} xsquare {} equals {:#x} iszero {:#x} decode({}) {:?} sub/neg {}",
                    hex(&r.encode()), hex(&s.encode()), hex(&p1.encode()), hex(&p2.encode()), hex(&xs.encode()), e, z, hex(&bb), d.map(|v| hex(&v.encode())), hex(&w.encode())));
                r127.push(xs);
            }
            27 => {
                // in-place forms of both binary fields
                out.probe("probe.apitrace.gfb_conditional_and_inplace");
                let ctl = if t.chance(1, 2) { 0xFFFF_FFFFu32 } else { 0 };
                let mut r = a;
                r.set_cond(&b, ctl);
                let (mut p1, mut p2) = (a, b);
                GFb254::cswap(&mut p1, &mut p2, ctl);
                let mut v = -a;
                match t.usize(9) {
                    0 => v.set_mul_sb(),
                    1 => v.set_mul_b(),
                    2 => v.set_div_z(),
                    3 => v.set_div_z2(),
                    4 => v.set_sqrt(),
                    5 => v.set_mul_u(),
                    6 => v.set_mul_u1(),
                    7 => v.set_mul_b127(&x),
                    _ => { v.set_invert(); v.set_square(); }
                }
                let mut g = x;
                match t.usize(8) {
                    0 => g.set_mul_sb(),
                    1 => g.set_mul_b(),
                    2 => g.set_div_z(),
                    3 => g.set_div_z2(),
                    4 => g.set_sqrt(),
                    5 => g.set_halftrace(),
                    6 => g.set_invert(),
                    _ => g.set_square(),
                }
                out.ev(format_args!("GFb254 cond {} cswap {} {} inplace {} ; GFb127 inplace {}", hex(&r.encode()), hex(&p1.encode()), hex(&p2.encode()), hex(&v.encode()), hex(&g.encode())));
                r254.push(v);
                r127.push(g);
            }
            22 => {
                // GF(2^254) operations specific to the GLS254 formulas
                let r = match t.usize(4) {
                    0 => a.mul_sb(),
                    1 => a.mul_b(),
                    2 => a.div_z2(),
                    _ => {
                        // x^2 + x = a + u*Tr(a): which of the two solutions x, x+1 is returned is unspecified
                        let x = a.qsolve();
                        let lhs = x.square() + x;
                        let rhs = if a.trace() != 0 { a + GFb254::U } else { a };
                        let (mut c0, c1) = x.to_components();
                        c0.set_bit(0, 0);
                        let canon = GFb254::from_b127(c0, c1);
                        out.ev(format_args!("GFb254 qsolve valid {:#x} canon {}", lhs.equals(rhs), hex(&canon.encode())));
                        canon
                    }
                };
                out.ev(format_args!("GFb254 xop -> {}", hex(&r.encode())));
                let n = a.mul_selfphi();
                out.ev(format_args!("GFb254 mul_selfphi -> {}", hex(&n.encode())));
                r127.push(n);
                r254.push(r);
            }
            23 => {
                let r = match t.usize(4) {
                    0 => x.mul_sb(),
                    1 => x.mul_b(),
                    2 => x.div_z(),
                    _ => x.div_z2(),
                };
                out.ev(format_args!("GFb127 xop -> {}", hex(&r.encode())));
                r127.push(r);
            }
            24 | 25 => {
                // constant-time table lookups; out-of-range indices must give zeros (except _nocheck, in range only)
                out.probe("probe.apitrace.gfb254_table_lookup");
                let tab: Vec<GFb254> = (0..32).map(|i| r254[i % r254.len()] + GFb254::from_b127(r127[i % r127.len()], GFb127::ONE)).collect();
                let kind = t.usize(4);
                let span: u32 = [16, 8, 4, 4][kind];
                let j = if kind == 3 {
                    t.usize(4) as u32
                } else {
                    match t.usize(7) {
                        0 => 0u32,
                        1 => span - 1,
                        2 => span,
                        3 => 0xFFFF_FFFF,
                        4 => 0x8000_0000 | t.usize(span as usize) as u32,
                        5 => span + t.usize(240) as u32,
                        _ => t.usize(span as usize) as u32,
                    }
                };
                let r: [GFb254; 2] = match kind {
                    0 => GFb254::lookup16_x2((&tab[..32]).try_into().unwrap(), j),
                    1 => GFb254::lookup8_x2((&tab[..16]).try_into().unwrap(), j),
                    2 => GFb254::lookup4_x2((&tab[..8]).try_into().unwrap(), j),
                    _ => GFb254::lookup4_x2_nocheck((&tab[..8]).try_into().unwrap(), j),
                };
                out.ev(format_args!("GFb254 lookup kind{} j={:#x} -> {} {}", kind, j, hex(&r[0].encode()), hex(&r[1].encode())));
                r254.push(r[1]);
            }
            0..=11 => {
                let r = match op {
                    0 => a + b,
                    1 => a - b,
                    2 => a * b,
                    3 => a.square(),
                    4 => a / b,
                    5 => a.invert(),
                    6 => a.sqrt(),
                    7 => a.xsquare(t.usize(5) as u32),
                    8 => a.mul_u(),
                    9 => a.mul_u1(),
                    10 => a.mul_b127(&x),
                    _ => a.div_z(),
                };
                out.ev(format_args!("GFb254 op{} -> {}", op, hex(&r.encode())));
                r254.push(r);
            }
            12 => {
                let tr = a.trace();
                let z = a.iszero();
                let e = a.equals(b);
                status!(out, "GFb254.iszero", z);
                status!(out, "GFb254.equals", e);
                out.ev(format_args!("GFb254 trace {} iszero {:#x} equals {:#x}", tr, z, e));
            }
            13 => {
                let c = if t.chance(1, 2) { 0xFFFF_FFFFu32 } else { 0 };
                let r = GFb254::select(&a, &b, c);
                out.ev(format_args!("GFb254 select -> {}", hex(&r.encode())));
                r254.push(r);
            }
            14 => {
                let (c0, c1) = a.to_components();
                let r = GFb254::from_b127(c1, c0);
                out.ev(format_args!("GFb254 swap components -> {}", hex(&r.encode())));
                r127.push(c0);
                r254.push(r);
            }
            _ => {
                let r = match op {
                    15 => x + y,
                    16 => x * y,
                    17 => x.square(),
                    18 => x / y,
                    19 => x.sqrt(),
                    20 => {
                        // single-bit accessors (index documented as 0..=126)
                        let k = [0usize, 1, 62, 63, 64, 65, 126][t.usize(7)].min(126);
                        let k = if t.chance(1, 2) { k } else { t.usize(127) };
                        let bit = t.usize(2) as u32;
                        let mut z = x;
                        let before = z.get_bit(k);
                        match t.usize(2) {
                            0 => z.set_bit(k, bit),
                            _ => z.xor_bit(k, bit),
                        }
                        out.ev(format_args!("GFb127 bit {} was {} now {}", k, before, z.get_bit(k)));
                        z
                    }
                    _ => if t.chance(1, 2) { x.halftrace() } else { x.invert() },
                };
                let tr = r.trace();
                out.ev(format_args!("GFb127 op{} -> {} trace {}", op, hex(&r.encode()), tr));
                r127.push(r);
            }
        }
        if r254.len() > 20 {
            r254.remove(3);
        }
        if r127.len() > 20 {
            r127.remove(2);
        }
    }
}


/// Helper integers Zu128 / Zu256 / Zu384 (64-bit or 32-bit limbs, feature zz32). Their limb layout is
/// backend-specific, so only the layout-independent accessors are logged: abs() / double_inc_abs() (u128 +
/// sign word), add_rsh224() and borrow() (u32).
fn m_zu(t: &mut Tape, rng: &mut SimRng, out: &mut RunOut, nops: usize) {
    use crrl::{Zu128, Zu256, Zu384};
    let mut r128: Vec<Zu128> = vec![Zu128::ZERO, Zu128::w64le(1, 0), Zu128::w64le(u64::MAX, u64::MAX)];
    let mut r256: Vec<Zu256> = vec![Zu256::ZERO, Zu256::w64le(u64::MAX, u64::MAX, u64::MAX, u64::MAX)];
    for _ in 0..3 + t.usize(3) {
        r128.push(Zu128::w64le(word(t, rng), word(t, rng)));
        r256.push(Zu256::w64le(word(t, rng), word(t, rng), word(t, rng), word(t, rng)));
        let l = if t.chance(3, 4) { 16 } else { len_biased(t, 16) };
        let b = bytes_biased(t, rng, l);
        if let Some(x) = Zu128::decode(&b) {
            r128.push(x);
        }
        let l = if t.chance(3, 4) { 32 } else { len_biased(t, 32) };
        let b = bytes_biased(t, rng, l);
        out.ev(format_args!("Zu256 decode({}B) -> {}", b.len(), Zu256::decode(&b).is_some()));
        if let Some(x) = Zu256::decode(&b) {
            r256.push(x);
        }
    }
    let show128 = |out: &mut RunOut, what: &str, x: Zu128| {
        let (a, s) = x.abs();
        let (d, s2) = x.double_inc_abs();
        out.status(ENG, "Zu128.abs", s);
        out.status(ENG, "Zu128.double_inc_abs", s2);
        out.ev(format_args!("Zu {} -> abs {:#x} sign {:#x} dia {:#x}", what, a, s, d));
    };
    for _ in 0..nops {
        let a = r128[t.usize(r128.len())];
        let b = r128[t.usize(r128.len())];
        let p = r256[t.usize(r256.len())];
        let q = r256[t.usize(r256.len())];
        match t.usize(7) {
            0 => {
                let m = a.mul128x128(&b);
                out.ev(format_args!("Zu mul128x128 -> top32 {:#x} borrow_vs_q {}", m.add_rsh224(&Zu256::ZERO), m.borrow(&q)));
                show128(out, "mul128x128.trunc128", m.trunc128());
                r256.push(m);
            }
            1 => {
                let m = a.mul128x128trunc(&b);
                show128(out, "mul128x128trunc", m);
                r128.push(m);
            }
            2 => {
                let mut x = a;
                x.set_sub(&b);
                show128(out, "set_sub", x);
                r128.push(x);
            }
            3 => {
                let mut x = a;
                x.set_sub_u32(word(t, rng) as u32);
                show128(out, "set_sub_u32", x);
                r128.push(x);
            }
            4 => {
                out.ev(format_args!("Zu256 add_rsh224 {:#x} borrow {}", p.add_rsh224(&q), p.borrow(&q)));
                show128(out, "trunc128", p.trunc128());
                // the middle bits too: (p * 2^97) >> 225 is p >> 128 (layout-independent accessors only)
                let hi = p.mul256x128(&Zu128::w64le(0, 1u64 << 33)).trunc_and_rsh_cc(0, 225).1;
                show128(out, "bits128..255", hi);
            }
            _ => {
                let mut z: Zu384 = p.mul256x128(&a);
                if t.chance(1, 2) {
                    let z2 = q.mul256x128(&b);
                    z.set_add(&z2);
                }
                let n = 225 + t.usize(31) as u32;
                let cc = t.usize(2) as u32;
                let (lo, hi) = z.trunc_and_rsh_cc(cc, n);
                out.ev(format_args!("Zu384 trunc_and_rsh_cc(cc={}, n={}) lo.top32 {:#x} lo.borrow_vs_q {}", cc, n, lo.add_rsh224(&Zu256::ZERO), lo.borrow(&q)));
                show128(out, "rsh.lo.trunc128", lo.trunc128());
                show128(out, "rsh.hi", hi);
                r256.push(lo);
                r128.push(hi);
            }
        }
        if r128.len() > 24 {
            r128.remove(3);
        }
        if r256.len() > 16 {
            r256.remove(2);
        }
    }
}

pub fn run(t: &mut Tape, tier: Tier, out: &mut RunOut) {
    let mut rng = SimRng::new(t.seed64());
    let nm = 1 + t.usize(3);
    let nops = 8 + t.usize(if tier == Tier::Thorough { 60 } else { 30 });
    out.summary = format!("api trace: {} machines x {} operations", nm, nops);
    for _ in 0..nm {
        let which = t.usize(24);
        out.sched("machine", which as u32, nops as u32);
        out.stats.inc("call.apitrace.machine");
        let res = crate::core::guard_raw(|| match which {
            0 => m_gf25519(t, &mut rng, out, nops),
            1 => m_gf255e(t, &mut rng, out, nops),
            2 => m_gf255s(t, &mut rng, out, nops),
            3 => m_gf448(t, &mut rng, out, nops),
            4 => m_gfp256(t, &mut rng, out, nops),
            5 => m_gfsecp256k1(t, &mut rng, out, nops),
            6 => m_sc25519(t, &mut rng, out, nops),
            7 => m_scp256(t, &mut rng, out, nops),
            8 => m_scsecp(t, &mut rng, out, nops),
            9 => m_scjq255e(t, &mut rng, out, nops),
            10 => m_scjq255s(t, &mut rng, out, nops),
            11 => m_scgls254(t, &mut rng, out, nops),
            12 => m_sc448(t, &mut rng, out, nops),
            13 => m_gfb(t, &mut rng, out, nops),
            14 => p_ed25519(t, &mut rng, out, nops / 2),
            15 => p_ed448(t, &mut rng, out, nops / 3),
            16 => p_p256(t, &mut rng, out, nops / 2),
            17 => p_secp256k1(t, &mut rng, out, nops / 2),
            18 => p_jq255e(t, &mut rng, out, nops / 2),
            19 => p_jq255s(t, &mut rng, out, nops / 2),
            20 => p_gls254(t, &mut rng, out, nops / 2),
            21 => p_ristretto255(t, &mut rng, out, nops / 2),
            22 => p_decaf448(t, &mut rng, out, nops / 3),
            _ => m_zu(t, &mut rng, out, nops),
        });
        if let Err(m) = res {
            out.ev(format_args!("PANIC in machine {}", which));
            // a panic of a documented operation on in-domain operands breaks C19 (totality) whatever the build,
            // and shows up as a transcript difference (C18) if only one build panics
            out.violate("C19", format!("apitrace/panic:machine{}", which), format!("API trace machine {} panicked: {}", which, m));
            out.violate("C18", format!("apitrace/panic:machine{}", which), format!("API trace machine {} panicked: {}", which, m));
        }
        out.ops_completed += 1;
    }
    out.force_nontrivial = true;
}
