//! Long-stream scenario of the hash world (property C17; also replayed across
//! builds for C18): a producer streams a very long message -- around 2^29
//! bytes, where the SHA-2 bit-length field crosses 32 bits, and around 2^32
//! bytes for BLAKE2s, where its low counter word wraps -- through the
//! segmenting transport into one crrl context. Reference digests come from a
//! committed vector file produced by CPython's hashlib (the harness's own
//! one-shot implementations would need the whole message in memory).

use crate::core::{guard, RunOut};
use crate::runner::Tier;
use crate::tape::Tape;
use crate::util::{hex, J};
use std::sync::OnceLock;

#[derive(Clone)]
struct LongVec {
    alg: String,
    len: u64,
    key_len: usize,
    out_len: usize,
    digest: String,
}

static VECS: OnceLock<Vec<LongVec>> = OnceLock::new();

fn vectors() -> &'static Vec<LongVec> {
    VECS.get_or_init(|| {
        let path = std::env::var("CRRL_SIM_LONG_VECTORS").unwrap_or_else(|_| "/verif/vectors/long_vectors.json".to_string());
        let s = std::fs::read_to_string(&path).unwrap_or_else(|e| panic!("cannot read {}: {}", path, e));
        let j = J::parse(&s).expect("long_vectors.json does not parse");
        j.as_arr()
            .expect("array")
            .iter()
            .map(|v| LongVec {
                alg: v.get("alg").and_then(|x| x.as_str()).unwrap().to_string(),
                len: v.get("len").and_then(|x| x.as_u64()).unwrap(),
                key_len: v.get("key_len").and_then(|x| x.as_u64()).unwrap_or(0) as usize,
                out_len: v.get("out_len").and_then(|x| x.as_u64()).unwrap_or(0) as usize,
                digest: v.get("digest").and_then(|x| x.as_str()).unwrap().to_string(),
            })
            .collect()
    })
}

fn key(n: usize) -> Vec<u8> {
    (0..n).map(|i| ((i * 31 + 5) & 0xFF) as u8).collect()
}

enum Ctx {
    S224(crrl::sha2::Sha224),
    S256(crrl::sha2::Sha256),
    S384(crrl::sha2::Sha384),
    S512(crrl::sha2::Sha512),
    S512_224(crrl::sha2::Sha512_224),
    S512_256(crrl::sha2::Sha512_256),
    K256(crrl::sha3::SHA3_256),
    K512(crrl::sha3::SHA3_512),
    X128(crrl::sha3::SHAKE128),
    X256(crrl::sha3::SHAKE256),
    B(crrl::blake2s::KeyedBlake2s),
}

/// Only the 2^32-byte BLAKE2s streams (engine "hashlong4g").
pub fn run_4g(t: &mut Tape, _tier: Tier, out: &mut RunOut) {
    run_sel(t, 2, out)
}

pub fn run(t: &mut Tape, tier: Tier, out: &mut RunOut) {
    // quick: only the 2^29 family (about 1-2 s each); thorough: also the 2^32 BLAKE2s family
    run_sel(t, if tier == Tier::Thorough { 1 } else { 0 }, out)
}

fn run_sel(t: &mut Tape, sel: u32, out: &mut RunOut) {
    let all = vectors();
    let cands: Vec<&LongVec> = all
        .iter()
        .filter(|v| match sel {
            0 => v.len < (1u64 << 31),
            1 => true,
            _ => v.len >= (1u64 << 31),
        })
        .collect();
    let v = cands[t.usize(cands.len())].clone();
    let mut ctx = match v.alg.as_str() {
        "sha224" => Ctx::S224(crrl::sha2::Sha224::new()),
        "sha256" => Ctx::S256(crrl::sha2::Sha256::new()),
        "sha384" => Ctx::S384(crrl::sha2::Sha384::new()),
        "sha512" => Ctx::S512(crrl::sha2::Sha512::new()),
        "sha512_224" => Ctx::S512_224(crrl::sha2::Sha512_224::new()),
        "sha512_256" => Ctx::S512_256(crrl::sha2::Sha512_256::new()),
        "sha3_256" => Ctx::K256(crrl::sha3::SHA3_256::new()),
        "sha3_512" => Ctx::K512(crrl::sha3::SHA3_512::new()),
        "shake_128" => Ctx::X128(crrl::sha3::SHAKE128::new()),
        "shake_256" => Ctx::X256(crrl::sha3::SHAKE256::new()),
        "blake2s" => Ctx::B(crrl::blake2s::KeyedBlake2s::new(v.out_len, &key(v.key_len))),
        other => panic!("unknown algorithm {} in long_vectors.json", other),
    };
    // segmentation schedule of the transport
    let mode = t.usize(5);
    let base_chunk: usize = match mode {
        0 => 1 << 20,
        1 => 65_521,
        2 => 4096 + t.usize(4096),
        3 => (1 << 24) + 1,
        _ => 1 << 16,
    };
    out.summary = format!("long stream: {} key_len={} out_len={} total {} bytes, segments of {} (mode {})", v.alg, v.key_len, v.out_len, v.len, base_chunk, mode);
    out.ev(format_args!("{}", out.summary.clone()));
    out.sched("long", mode as u32, (v.len >> 20) as u32);
    // message byte i = (i*167 + 13) & 0xFF has period 256
    let maxc = base_chunk + 4096;
    let buf: Vec<u8> = (0..maxc + 256).map(|i| ((i * 167 + 13) & 0xFF) as u8).collect();
    let mut off: u64 = 0;
    let mut segs: u64 = 0;
    let r = guard(out, "call.hashlong.stream", || {
        while off < v.len {
            // mode 4: occasional odd-sized and zero-length segments
            let want = if mode == 4 && segs % 7 == 3 { 0 } else if mode == 4 && segs % 5 == 1 { base_chunk + 1 + (segs as usize % 63) } else { base_chunk };
            let n = (want as u64).min(v.len - off) as usize;
            let s = (off % 256) as usize;
            let d = &buf[s..s + n];
            match &mut ctx {
                Ctx::S224(c) => c.update(d),
                Ctx::S256(c) => c.update(d),
                Ctx::S384(c) => c.update(d),
                Ctx::S512(c) => c.update(d),
                Ctx::S512_224(c) => c.update(d),
                Ctx::S512_256(c) => c.update(d),
                Ctx::K256(c) => c.update(d),
                Ctx::K512(c) => c.update(d),
                Ctx::X128(c) => c.inject(d),
                Ctx::X256(c) => c.inject(d),
                Ctx::B(c) => c.update(d),
            }
            off += n as u64;
            segs += 1;
        }
        match &mut ctx {
            Ctx::S224(c) => c.digest().to_vec(),
            Ctx::S256(c) => c.digest().to_vec(),
            Ctx::S384(c) => c.digest().to_vec(),
            Ctx::S512(c) => c.digest().to_vec(),
            Ctx::S512_224(c) => c.digest().to_vec(),
            Ctx::S512_256(c) => c.digest().to_vec(),
            Ctx::K256(c) => c.digest().to_vec(),
            Ctx::K512(c) => c.digest().to_vec(),
            Ctx::X128(c) => {
                let mut o = vec![0u8; v.out_len];
                c.flip_extract(&mut o);
                o
            }
            Ctx::X256(c) => {
                let mut o = vec![0u8; v.out_len];
                c.flip_extract(&mut o);
                o
            }
            Ctx::B(c) => {
                let mut o = vec![0u8; v.out_len];
                c.finalize_write(&mut o);
                o
            }
        }
    });
    out.fault("fault.hash.long_stream_segmentation");
    match r {
        Ok(got) => {
            out.ev(format_args!("digest after {} segments -> {}", segs, hex(&got)));
            out.ops_completed += 1;
            if v.len >= (1u64 << 32) {
                out.probe("probe.hash.blake2s_counter_crossed_2_32");
            } else {
                out.probe("probe.hash.length_crossed_2_29_bytes");
            }
            if hex(&got) != v.digest {
                out.violate(
                    "C17",
                    format!("hash/{}/mismatch:long_stream", v.alg),
                    format!("{} of {} bytes (key_len {}, out_len {}) streamed in segments of {}: got {} want {}", v.alg, v.len, v.key_len, v.out_len, base_chunk, hex(&got), v.digest),
                );
            }
        }
        Err(m) => {
            out.violate("C17", format!("hash/{}/panic:long_stream", v.alg), m.clone());
            out.violate("C19", format!("hash/{}/panic:long_stream", v.alg), m);
        }
    }
}
