//! Sim C — the hash stream world (property C17; feeds C18 and C19).
//!
//! A producer owns messages; a byte-stream transport delivers them to a
//! hasher node in tape-chosen segments; the hasher holds several live crrl
//! contexts and is also told, at tape-chosen instants, to finalize (by any of
//! the API's finalisation entry points), reset, checkpoint (clone) or switch
//! a SHAKE instance to output mode and squeeze in tape-chosen output
//! segments. A reference model per context (the bytes absorbed since the last
//! reset + a phase flag) and the harness's own one-shot hash implementations
//! decide, operation by operation, what every output must be.

use crate::core::{guard, RunOut};
use crate::refimpl::{blake2s as rb, keccak as rk, sha2 as rs};
use crate::rng::SimRng;
use crate::tape::Tape;
use crate::util::hex;
use crrl::blake2s::{Blake2s, Blake2s256, KeyedBlake2s};
use crrl::sha2::{Sha224, Sha256, Sha384, Sha512, Sha512_224, Sha512_256};
use crrl::sha3::{SHA3_224, SHA3_256, SHA3_384, SHA3_512, SHAKE128, SHAKE256};

pub const ENGINE: &str = "hash";

#[derive(Clone, Copy, PartialEq, Eq, Debug)]
pub enum Alg {
    Sha224,
    Sha256,
    Sha384,
    Sha512,
    Sha512_224,
    Sha512_256,
    Sha3_224,
    Sha3_256,
    Sha3_384,
    Sha3_512,
    Shake128,
    Shake256,
    Blake2s,
    KeyedBlake2s,
    Blake2s256,
}

pub const ALGS: [Alg; 15] = [
    Alg::Sha224,
    Alg::Sha256,
    Alg::Sha384,
    Alg::Sha512,
    Alg::Sha512_224,
    Alg::Sha512_256,
    Alg::Sha3_224,
    Alg::Sha3_256,
    Alg::Sha3_384,
    Alg::Sha3_512,
    Alg::Shake128,
    Alg::Shake256,
    Alg::Blake2s,
    Alg::KeyedBlake2s,
    Alg::Blake2s256,
];

impl Alg {
    pub fn name(self) -> &'static str {
        match self {
            Alg::Sha224 => "sha224",
            Alg::Sha256 => "sha256",
            Alg::Sha384 => "sha384",
            Alg::Sha512 => "sha512",
            Alg::Sha512_224 => "sha512_224",
            Alg::Sha512_256 => "sha512_256",
            Alg::Sha3_224 => "sha3_224",
            Alg::Sha3_256 => "sha3_256",
            Alg::Sha3_384 => "sha3_384",
            Alg::Sha3_512 => "sha3_512",
            Alg::Shake128 => "shake128",
            Alg::Shake256 => "shake256",
            Alg::Blake2s => "blake2s",
            Alg::KeyedBlake2s => "keyed_blake2s",
            Alg::Blake2s256 => "blake2s256",
        }
    }
    /// Block (or rate) size in bytes: the boundary that segmenting is biased to.
    pub fn block(self) -> usize {
        match self {
            Alg::Sha224 | Alg::Sha256 => 64,
            Alg::Sha384 | Alg::Sha512 | Alg::Sha512_224 | Alg::Sha512_256 => 128,
            Alg::Sha3_224 => 144,
            Alg::Sha3_256 => 136,
            Alg::Sha3_384 => 104,
            Alg::Sha3_512 => 72,
            Alg::Shake128 => 168,
            Alg::Shake256 => 136,
            Alg::Blake2s | Alg::KeyedBlake2s | Alg::Blake2s256 => 64,
        }
    }
    /// Length at which padding spills into an extra block (SHA-2 only).
    fn pad_edge(self) -> usize {
        match self {
            Alg::Sha224 | Alg::Sha256 => 56,
            Alg::Sha384 | Alg::Sha512 | Alg::Sha512_224 | Alg::Sha512_256 => 112,
            _ => 0,
        }
    }
    fn is_shake(self) -> bool {
        matches!(self, Alg::Shake128 | Alg::Shake256)
    }
    fn is_blake(self) -> bool {
        matches!(self, Alg::Blake2s | Alg::KeyedBlake2s | Alg::Blake2s256)
    }
}

/// The harness's reference digest (fixed-output algorithms).
pub fn ref_digest(alg: Alg, out_len: usize, key: &[u8], m: &[u8]) -> Vec<u8> {
    match alg {
        Alg::Sha224 => rs::sha224(m),
        Alg::Sha256 => rs::sha256(m),
        Alg::Sha384 => rs::sha384(m),
        Alg::Sha512 => rs::sha512(m),
        Alg::Sha512_224 => rs::sha512_224(m),
        Alg::Sha512_256 => rs::sha512_256(m),
        Alg::Sha3_224 => rk::sha3_224(m),
        Alg::Sha3_256 => rk::sha3_256(m),
        Alg::Sha3_384 => rk::sha3_384(m),
        Alg::Sha3_512 => rk::sha3_512(m),
        Alg::Shake128 => rk::shake128(m, out_len),
        Alg::Shake256 => rk::shake256(m, out_len),
        Alg::Blake2s | Alg::Blake2s256 => rb::blake2s(out_len, &[], m),
        Alg::KeyedBlake2s => rb::blake2s(out_len, key, m),
    }
}

/// A live crrl context.
enum Ctx {
    Sha224(Sha224),
    Sha256(Sha256),
    Sha384(Sha384),
    Sha512(Sha512),
    Sha512_224(Sha512_224),
    Sha512_256(Sha512_256),
    Sha3_224(SHA3_224),
    Sha3_256(SHA3_256),
    Sha3_384(SHA3_384),
    Sha3_512(SHA3_512),
    Shake128(SHAKE128),
    Shake256(SHAKE256),
    Blake2s(Blake2s),
    Keyed(KeyedBlake2s),
    B256(Blake2s256),
}

macro_rules! fixed_all {
    ($self:expr, $c:ident => $e:expr, else $other:expr) => {
        match $self {
            Ctx::Sha224($c) => $e,
            Ctx::Sha256($c) => $e,
            Ctx::Sha384($c) => $e,
            Ctx::Sha512($c) => $e,
            Ctx::Sha512_224($c) => $e,
            Ctx::Sha512_256($c) => $e,
            Ctx::Sha3_224($c) => $e,
            Ctx::Sha3_256($c) => $e,
            Ctx::Sha3_384($c) => $e,
            Ctx::Sha3_512($c) => $e,
            _ => $other,
        }
    };
}

#[derive(Clone, Copy, PartialEq, Eq, Debug)]
enum Phase {
    Absorb,
    Squeeze,
    /// BLAKE2s after a non-resetting finalize: only `reset` is allowed.
    Spent,
}

struct Slot {
    alg: Alg,
    ctx: Ctx,
    // model
    absorbed: Vec<u8>,
    phase: Phase,
    out_off: usize,
    out_len: usize,
    key: Vec<u8>,
    id: u32,
}

fn new_ctx(alg: Alg, out_len: usize, key: &[u8]) -> Ctx {
    match alg {
        Alg::Sha224 => Ctx::Sha224(Sha224::new()),
        Alg::Sha256 => Ctx::Sha256(Sha256::new()),
        Alg::Sha384 => Ctx::Sha384(Sha384::new()),
        Alg::Sha512 => Ctx::Sha512(Sha512::new()),
        Alg::Sha512_224 => Ctx::Sha512_224(Sha512_224::new()),
        Alg::Sha512_256 => Ctx::Sha512_256(Sha512_256::new()),
        Alg::Sha3_224 => Ctx::Sha3_224(SHA3_224::new()),
        Alg::Sha3_256 => Ctx::Sha3_256(SHA3_256::new()),
        Alg::Sha3_384 => Ctx::Sha3_384(SHA3_384::new()),
        Alg::Sha3_512 => Ctx::Sha3_512(SHA3_512::new()),
        Alg::Shake128 => Ctx::Shake128(SHAKE128::new()),
        Alg::Shake256 => Ctx::Shake256(SHAKE256::new()),
        Alg::Blake2s => Ctx::Blake2s(Blake2s::new(out_len)),
        Alg::KeyedBlake2s => Ctx::Keyed(KeyedBlake2s::new(out_len, key)),
        Alg::Blake2s256 => Ctx::B256(Blake2s256::new()),
    }
}

impl Ctx {
    fn update(&mut self, d: &[u8]) {
        match self {
            Ctx::Shake128(c) => c.inject(d),
            Ctx::Shake256(c) => c.inject(d),
            Ctx::Blake2s(c) => c.update(d),
            Ctx::Keyed(c) => c.update(d),
            Ctx::B256(c) => c.update(d),
            other => fixed_all!(other, c => c.update(d), else unreachable!()),
        }
    }
    /// SHAKE only: the `update` alias.
    fn update_alias(&mut self, d: &[u8]) {
        match self {
            Ctx::Shake128(c) => c.update(d),
            Ctx::Shake256(c) => c.update(d),
            _ => self.update(d),
        }
    }
    fn reset(&mut self) {
        match self {
            Ctx::Shake128(c) => c.reset(),
            Ctx::Shake256(c) => c.reset(),
            Ctx::Blake2s(c) => c.reset(),
            Ctx::Keyed(c) => c.reset(),
            Ctx::B256(_) => unreachable!(), // no public reset on Blake2s256
            other => fixed_all!(other, c => c.reset(), else unreachable!()),
        }
    }
    fn try_clone(&self) -> Option<Ctx> {
        Some(match self {
            Ctx::Sha224(c) => Ctx::Sha224(*c),
            Ctx::Sha256(c) => Ctx::Sha256(c.clone()),
            Ctx::Sha384(c) => Ctx::Sha384(*c),
            Ctx::Sha512(c) => Ctx::Sha512(c.clone()),
            Ctx::Sha512_224(c) => Ctx::Sha512_224(*c),
            Ctx::Sha512_256(c) => Ctx::Sha512_256(c.clone()),
            Ctx::Sha3_224(c) => Ctx::Sha3_224(*c),
            Ctx::Sha3_256(c) => Ctx::Sha3_256(c.clone()),
            Ctx::Sha3_384(c) => Ctx::Sha3_384(*c),
            Ctx::Sha3_512(c) => Ctx::Sha3_512(c.clone()),
            Ctx::Shake128(c) => Ctx::Shake128(*c),
            Ctx::Shake256(c) => Ctx::Shake256(c.clone()),
            _ => return None,
        })
    }
}

/// Finalisation entry points of the fixed-output (SHA-2 / SHA-3) types.
/// All of them are documented to reset the instance.
fn fixed_finalize(ctx: &mut Ctx, how: usize, _extra: usize) -> Vec<u8> {
    fixed_all!(ctx, c => {
        match how {
            0 => c.digest().to_vec(),
            1 => c.finalize().to_vec(),
            _ => c.finalize_reset().to_vec(),
        }
    }, else unreachable!())
}

fn fixed_finalize_write(ctx: &mut Ctx, reset_variant: bool, extra: usize, dlen: usize) -> (usize, Vec<u8>) {
    let mut out = vec![0xA5u8; dlen + extra];
    let n = fixed_all!(ctx, c => {
        if reset_variant { c.finalize_reset_write(&mut out) } else { c.finalize_write(&mut out) }
    }, else unreachable!());
    (n, out)
}

fn static_hash(alg: Alg, m: &[u8]) -> Vec<u8> {
    match alg {
        Alg::Sha224 => Sha224::hash(m).to_vec(),
        Alg::Sha256 => Sha256::hash(m).to_vec(),
        Alg::Sha384 => Sha384::hash(m).to_vec(),
        Alg::Sha512 => Sha512::hash(m).to_vec(),
        Alg::Sha512_224 => Sha512_224::hash(m).to_vec(),
        Alg::Sha512_256 => Sha512_256::hash(m).to_vec(),
        Alg::Sha3_224 => SHA3_224::hash(m).to_vec(),
        Alg::Sha3_256 => SHA3_256::hash(m).to_vec(),
        Alg::Sha3_384 => SHA3_384::hash(m).to_vec(),
        Alg::Sha3_512 => SHA3_512::hash(m).to_vec(),
        Alg::Blake2s256 => Blake2s256::hash(m).to_vec(),
        _ => unreachable!(),
    }
}

fn digest_len(alg: Alg) -> usize {
    match alg {
        Alg::Sha224 | Alg::Sha512_224 | Alg::Sha3_224 => 28,
        Alg::Sha256 | Alg::Sha512_256 | Alg::Sha3_256 | Alg::Blake2s256 => 32,
        Alg::Sha384 | Alg::Sha3_384 => 48,
        Alg::Sha512 | Alg::Sha3_512 => 64,
        _ => 0,
    }
}

pub struct Cfg {
    pub max_steps: usize,
    /// Restrict to one algorithm (None = tape chooses per slot).
    pub only: Option<Alg>,
}

impl Default for Cfg {
    fn default() -> Self {
        Self { max_steps: 40, only: None }
    }
}

/// Choose a segment length biased to the buffer boundaries of `alg`, given
/// how many bytes the model says are currently buffered.
fn seg_len(t: &mut Tape, alg: Alg, absorbed: usize, out: &mut RunOut) -> usize {
    let b = alg.block();
    // BLAKE2s keeps a full block lazily; the keyed variant starts with one.
    let fill = absorbed % b;
    let to_edge = b - fill;
    let pe = alg.pad_edge();
    let kind = t.weighted(&[3, 4, 3, 3, 3, 2, 2, 2, 2, 3, 1, 1]);
    let n = match kind {
        0 => 1 + t.usize(8),                 // a few bytes
        1 => to_edge,                        // exactly fill the buffer
        2 => to_edge.saturating_sub(1),      // one short of the boundary
        3 => to_edge + 1,                    // straddle the boundary by one
        4 => to_edge + b,                    // fill + exactly one more block
        5 => to_edge + b + 1 + t.usize(3),   // fill + a block + a bit
        6 => b * (1 + t.usize(3)),           // whole blocks from wherever we are
        7 => {
            // land exactly on / around the SHA-2 padding edge
            if pe > 0 {
                let target = pe + t.usize(3) - 1; // 55,56,57 or 111,112,113
                if fill <= target { target - fill } else { b - fill + target }
            } else {
                to_edge.saturating_sub(2 + t.usize(3))
            }
        }
        8 => 0,                              // zero-length delivery
        9 => 1 + t.usize(600),
        10 => 600 + t.usize(3000),
        _ => 2 * b - 1 + t.usize(3),
    };
    if n == 0 {
        out.probe("probe.hash.zero_length_delivery");
    }
    if n > 0 && fill + n > b {
        out.probe("probe.hash.update_straddles_boundary");
    }
    if n > 0 && (fill + n) % b == 0 {
        out.probe("probe.hash.update_exactly_fills_buffer");
    }
    n
}

fn mismatch(out: &mut RunOut, alg: Alg, what: &str, got: &[u8], want: &[u8], slot: &Slot) {
    out.violate(
        "C17",
        format!("hash/{}/mismatch:{}", alg.name(), what),
        format!(
            "{} on {} (ctx#{}, out_len={}, key_len={}, absorbed {} bytes, out_off {}): got {} want {}",
            what,
            alg.name(),
            slot.id,
            slot.out_len,
            slot.key.len(),
            slot.absorbed.len(),
            slot.out_off,
            hex(got),
            hex(want)
        ),
    );
}

fn lib_panic(out: &mut RunOut, alg: Alg, what: &'static str, m: &str, slot: &Slot) {
    let detail = format!(
        "{} on {} (out_len={}, key_len={}, absorbed {} bytes) panicked although the call sequence is documented as allowed: {}",
        what,
        alg.name(),
        slot.out_len,
        slot.key.len(),
        slot.absorbed.len(),
        m
    );
    out.ev(format_args!("PANIC {} {}", alg.name(), what));
    out.violate("C17", format!("hash/{}/panic:{}", alg.name(), what), detail.clone());
    out.violate("C19", format!("hash/{}/panic:{}", alg.name(), what), detail);
}

pub fn run(t: &mut Tape, cfg: &Cfg, out: &mut RunOut) {
    let mut rng = SimRng::new(t.seed64());
    let nslots = 1 + t.usize(3);
    let steps = 4 + t.usize(cfg.max_steps);
    let mut slots: Vec<Slot> = Vec::new();
    let mut next_id = 0u32;
    let mut new_slot = |t: &mut Tape, rng: &mut SimRng, out: &mut RunOut, next_id: &mut u32| -> Slot {
        let alg = match cfg.only {
            Some(a) => a,
            None => ALGS[t.usize(ALGS.len())],
        };
        let out_len = match alg {
            Alg::Blake2s | Alg::KeyedBlake2s => 1 + t.usize(32),
            Alg::Blake2s256 => 32,
            _ => digest_len(alg),
        };
        let key = if alg == Alg::KeyedBlake2s {
            // key length 0..=32, biased to the ends
            let kl = match t.usize(6) {
                0 => 32,
                1 => 0,
                2 => 1,
                3 => 31,
                _ => t.usize(33),
            };
            rng.bytes(kl)
        } else {
            Vec::new()
        };
        *next_id += 1;
        out.ev(format_args!("new ctx#{} {} out_len={} key={}", *next_id, alg.name(), out_len, hex(&key)));
        Slot {
            alg,
            ctx: new_ctx(alg, out_len.max(1), &key),
            absorbed: Vec::new(),
            phase: Phase::Absorb,
            out_off: 0,
            out_len,
            key,
            id: *next_id,
        }
    };
    for _ in 0..nslots {
        let s = new_slot(t, &mut rng, out, &mut next_id);
        slots.push(s);
    }
    out.summary = format!(
        "hash world: {} live contexts [{}], {} steps",
        nslots,
        slots.iter().map(|s| s.alg.name()).collect::<Vec<_>>().join(","),
        steps
    );

    for _step in 0..steps {
        let si = t.usize(slots.len());
        out.sched("step", si as u32, slots[si].alg as u32);
        let alg = slots[si].alg;
        // Operation menu; index 0 (deliver a segment) is the simplest.
        // 0 deliver, 1 finalize, 2 reset, 3 clone/checkpoint, 4 one-shot, 5 flip/extract, 6 replace ctx
        let op = match slots[si].phase {
            Phase::Absorb => t.weighted(&[10, 4, 1, 2, 1, if alg.is_shake() { 4 } else { 0 }, 0]),
            Phase::Squeeze => t.weighted(&[0, 0, 1, 2, 0, 8, 0]),
            Phase::Spent => t.weighted(&[0, 0, 4, 0, 1, 0, 1]),
        };
        match op {
            0 => {
                let n = seg_len(t, alg, slots[si].absorbed.len() + if alg == Alg::KeyedBlake2s && !slots[si].key.is_empty() { 64 } else { 0 }, out);
                // cap total absorbed so the reference stays cheap
                let n = if slots[si].absorbed.len() + n > 12_000 { 1 } else { n };
                let data = rng.bytes(n);
                let alias = alg.is_shake() && t.chance(1, 4);
                let s = &mut slots[si];
                let r = guard(out, "call.hash.update", || {
                    if alias {
                        s.ctx.update_alias(&data)
                    } else {
                        s.ctx.update(&data)
                    }
                });
                out.sched("upd", n as u32, 0);
                out.ev(format_args!("ctx#{} update {}B", slots[si].id, n));
                match r {
                    Ok(()) => slots[si].absorbed.extend_from_slice(&data),
                    Err(m) => {
                        lib_panic(out, alg, "update", &m, &slots[si]);
                        let s = new_slot(t, &mut rng, out, &mut next_id);
                        slots[si] = s;
                    }
                }
            }
            1 => {
                // finalize by one of the entry points
                let want_len = slots[si].out_len;
                if alg.is_shake() {
                    // handled under op 5; treat as flip_extract of a short output
                    do_shake(t, out, &mut slots[si], 2);
                } else if alg.is_blake() {
                    do_blake_finalize(t, out, &mut slots, si, &mut rng, &mut next_id, &mut new_slot);
                } else {
                    let how = t.usize(5);
                    let extra = if how >= 3 { t.usize(3) * 7 } else { 0 };
                    let s = &mut slots[si];
                    let lbl: &'static str = ["digest", "finalize", "finalize_reset", "finalize_write", "finalize_reset_write"][how];
                    let r = guard(out, "call.hash.finalize", || {
                        if how < 3 {
                            (want_len, fixed_finalize(&mut s.ctx, how, 0))
                        } else {
                            fixed_finalize_write(&mut s.ctx, how == 4, extra, want_len)
                        }
                    });
                    match r {
                        Ok((n, got)) => {
                            let want = ref_digest(alg, want_len, &[], &slots[si].absorbed);
                            pad_probe(out, alg, slots[si].absorbed.len());
                            out.ev(format_args!("ctx#{} {} -> {}", slots[si].id, lbl, hex(&got[..want_len.min(got.len())])));
                            if n != want_len || got.len() < want_len || got[..want_len] != want[..] {
                                mismatch(out, alg, lbl, &got, &want, &slots[si]);
                            } else if got[want_len..].iter().any(|&x| x != 0xA5) {
                                mismatch(out, alg, "finalize_write:wrote-past-digest", &got, &want, &slots[si]);
                            }
                            out.ops_completed += 1;
                            out.probe("probe.hash.digest_compared");
                            if !slots[si].absorbed.is_empty() || true {
                                out.probe("probe.hash.reuse_after_finalize_armed");
                            }
                            slots[si].absorbed.clear();
                        }
                        Err(m) => {
                            lib_panic(out, alg, lbl, &m, &slots[si]);
                            let s = new_slot(t, &mut rng, out, &mut next_id);
                            slots[si] = s;
                        }
                    }
                }
            }
            2 => {
                if alg == Alg::Blake2s256 {
                    // no public reset: the only way on is a fresh context
                    let s = new_slot(t, &mut rng, out, &mut next_id);
                    slots[si] = s;
                    continue;
                }
                let s = &mut slots[si];
                let r = guard(out, "call.hash.reset", || s.ctx.reset());
                out.ev(format_args!("ctx#{} reset (had {}B, phase {:?})", slots[si].id, slots[si].absorbed.len(), slots[si].phase));
                out.fault("fault.hash.reset_midstream");
                if alg == Alg::KeyedBlake2s {
                    out.probe("probe.hash.keyed_reset");
                    if !slots[si].key.is_empty() && slots[si].key.len() < 32 {
                        out.probe("probe.hash.keyed_reset_short_key");
                    }
                }
                match r {
                    Ok(()) => {
                        let s = &mut slots[si];
                        s.absorbed.clear();
                        s.phase = Phase::Absorb;
                        s.out_off = 0;
                    }
                    Err(m) => {
                        lib_panic(out, alg, "reset", &m, &slots[si]);
                        let s = new_slot(t, &mut rng, out, &mut next_id);
                        slots[si] = s;
                    }
                }
            }
            3 => {
                // checkpoint: clone into another (or a new) slot; both evolve
                // independently from here on.
                if let Some(c) = slots[si].ctx.try_clone() {
                    next_id += 1;
                    let ns = Slot {
                        alg,
                        ctx: c,
                        absorbed: slots[si].absorbed.clone(),
                        phase: slots[si].phase,
                        out_off: slots[si].out_off,
                        out_len: slots[si].out_len,
                        key: Vec::new(),
                        id: next_id,
                    };
                    out.fault("fault.hash.clone_checkpoint");
                    if slots[si].absorbed.len() % alg.block() != 0 {
                        out.probe("probe.hash.clone_mid_block");
                    }
                    out.ev(format_args!("ctx#{} cloned -> ctx#{}", slots[si].id, next_id));
                    if slots.len() < 5 {
                        slots.push(ns);
                    } else {
                        let di = t.usize(slots.len());
                        slots[di] = ns;
                    }
                } else {
                    out.probe("probe.hash.clone_unavailable_blake2s");
                }
            }
            4 => {
                // one-shot entry point on a fresh message (independent of slots)
                let n = seg_len(t, alg, 0, out).min(4000);
                let data = rng.bytes(n);
                one_shot(t, out, alg, &data, &mut rng);
            }
            5 => {
                let sub = t.usize(4);
                do_shake(t, out, &mut slots[si], sub);
            }
            _ => {
                let s = new_slot(t, &mut rng, out, &mut next_id);
                slots[si] = s;
            }
        }
    }
    // End of run: every live absorbing context is finalized once more so that
    // nothing buffered goes unchecked.
    for si in 0..slots.len() {
        let alg = slots[si].alg;
        if slots[si].phase != Phase::Absorb {
            continue;
        }
        if alg.is_shake() {
            do_shake(t, out, &mut slots[si], 2);
        } else if alg.is_blake() {
            do_blake_finalize(t, out, &mut slots, si, &mut rng, &mut next_id, &mut new_slot);
        } else {
            let want_len = slots[si].out_len;
            let s = &mut slots[si];
            if let Ok(got) = guard(out, "call.hash.finalize", || fixed_finalize(&mut s.ctx, 0, 0)) {
                let want = ref_digest(alg, want_len, &[], &slots[si].absorbed);
                out.ev(format_args!("ctx#{} final digest -> {}", slots[si].id, hex(&got)));
                if got != want {
                    mismatch(out, alg, "digest", &got, &want, &slots[si]);
                }
                out.ops_completed += 1;
            }
        }
    }
}

fn pad_probe(out: &mut RunOut, alg: Alg, len: usize) {
    let pe = alg.pad_edge();
    if pe > 0 {
        let f = len % alg.block();
        if f >= pe {
            out.probe("probe.hash.sha2_finalize_needs_extra_block");
        }
        if f + 1 == pe || f == pe {
            out.probe("probe.hash.sha2_finalize_at_padding_edge");
        }
    } else if !alg.is_blake() {
        let f = len % alg.block();
        if f + 1 == alg.block() {
            out.probe("probe.hash.keccak_finalize_with_one_free_byte");
        }
        if f == 0 && len > 0 {
            out.probe("probe.hash.keccak_finalize_on_empty_buffer_after_full_block");
        }
    }
}

fn one_shot(t: &mut Tape, out: &mut RunOut, alg: Alg, data: &[u8], rng: &mut SimRng) {
    match alg {
        Alg::Shake128 | Alg::Shake256 => {
            // no static one-shot for SHAKE; use a fresh instance end to end
            let n = 1 + t.usize(400);
            let r = guard(out, "call.hash.shake_oneshot", || {
                let mut o = vec![0u8; n];
                if alg == Alg::Shake128 {
                    let mut c = SHAKE128::new();
                    c.inject(data);
                    c.flip_extract(&mut o);
                } else {
                    let mut c = SHAKE256::new();
                    c.inject(data);
                    c.flip_extract(&mut o);
                }
                o
            });
            if let Ok(got) = r {
                let want = ref_digest(alg, n, &[], data);
                out.ev(format_args!("oneshot {} {}B -> {}", alg.name(), data.len(), hex(&got[..n.min(16)])));
                if got != want {
                    out.violate("C17", format!("hash/{}/mismatch:oneshot", alg.name()), format!("len {} out {}", data.len(), n));
                }
                out.ops_completed += 1;
            }
        }
        Alg::Blake2s | Alg::KeyedBlake2s => {
            let ol = 1 + t.usize(32);
            let extra = t.usize(3) * 5;
            let key = if alg == Alg::KeyedBlake2s { rng.bytes(t.usize(33)) } else { Vec::new() };
            let r = guard(out, "call.hash.blake2s_hash_into", || {
                let mut o = vec![0xA5u8; ol + extra];
                if alg == Alg::KeyedBlake2s {
                    KeyedBlake2s::hash_into(ol, &key, data, &mut o);
                } else {
                    Blake2s::hash_into(ol, data, &mut o);
                }
                o
            });
            match r {
                Ok(got) => {
                    let want = ref_digest(alg, ol, &key, data);
                    out.ev(format_args!("hash_into {} {}B key{} out{} -> {}", alg.name(), data.len(), key.len(), ol, hex(&got[..ol])));
                    if got[..ol] != want[..] || got[ol..].iter().any(|&x| x != 0xA5) {
                        out.violate(
                            "C17",
                            format!("hash/{}/mismatch:hash_into", alg.name()),
                            format!("len {} key_len {} out_len {}: got {} want {}", data.len(), key.len(), ol, hex(&got), hex(&want)),
                        );
                    }
                    out.ops_completed += 1;
                }
                Err(m) => {
                    out.violate("C17", format!("hash/{}/panic:hash_into", alg.name()), m.clone());
                    out.violate("C19", format!("hash/{}/panic:hash_into", alg.name()), m);
                }
            }
        }
        _ => {
            let r = guard(out, "call.hash.static_hash", || static_hash(alg, data));
            match r {
                Ok(got) => {
                    let want = ref_digest(alg, digest_len(alg), &[], data);
                    out.ev(format_args!("hash {} {}B -> {}", alg.name(), data.len(), hex(&got)));
                    if got != want {
                        out.violate(
                            "C17",
                            format!("hash/{}/mismatch:hash", alg.name()),
                            format!("one-shot hash of {} bytes: got {} want {}", data.len(), hex(&got), hex(&want)),
                        );
                    }
                    out.ops_completed += 1;
                }
                Err(m) => {
                    out.violate("C17", format!("hash/{}/panic:hash", alg.name()), m.clone());
                    out.violate("C19", format!("hash/{}/panic:hash", alg.name()), m);
                }
            }
        }
    }
}

/// SHAKE operations. sub: 0 = extract more (flip first if needed),
/// 1 = flip only, 2 = flip_extract, 3 = flip_extract_reset.
fn do_shake(t: &mut Tape, out: &mut RunOut, s: &mut Slot, sub: usize) {
    let alg = s.alg;
    if !alg.is_shake() {
        return;
    }
    let rate = alg.block();
    let is128 = alg == Alg::Shake128;
    // output segment length biased to the rate boundary
    let to_edge = rate - (s.out_off % rate);
    let mut n = match t.usize(8) {
        0 => 1 + t.usize(8),
        1 => to_edge,
        2 => to_edge.saturating_sub(1),
        3 => to_edge + 1,
        4 => rate,
        5 => 0,
        6 => 2 * rate + t.usize(3),
        _ => 1 + t.usize(300),
    };
    if s.out_off + n > 2500 {
        n = 1;
    }
    let id = s.id;
    macro_rules! with_ctx {
        ($c:ident => $e:expr) => {
            match &mut s.ctx {
                Ctx::Shake128($c) => $e,
                Ctx::Shake256($c) => $e,
                _ => unreachable!(),
            }
        };
    }
    let _ = is128;
    let mut buf = vec![0u8; n];
    let (label, did_extract, reset_after): (&'static str, bool, bool) = match (s.phase, sub) {
        (Phase::Absorb, 1) => {
            let r = guard(out, "call.hash.shake_flip", || with_ctx!(c => c.flip()));
            if r.is_err() {
                out.violate("C17", format!("hash/{}/panic:flip", alg.name()), "flip panicked in input mode".into());
            }
            s.phase = Phase::Squeeze;
            s.out_off = 0;
            out.ev(format_args!("ctx#{} flip", id));
            return;
        }
        (Phase::Absorb, 3) => {
            let r = guard(out, "call.hash.shake_flip_extract_reset", || with_ctx!(c => c.flip_extract_reset(&mut buf)));
            if r.is_err() {
                out.violate("C17", format!("hash/{}/panic:flip_extract_reset", alg.name()), String::new());
                return;
            }
            ("flip_extract_reset", true, true)
        }
        (Phase::Absorb, _) => {
            let r = guard(out, "call.hash.shake_flip_extract", || with_ctx!(c => c.flip_extract(&mut buf)));
            if r.is_err() {
                out.violate("C17", format!("hash/{}/panic:flip_extract", alg.name()), String::new());
                return;
            }
            s.phase = Phase::Squeeze;
            s.out_off = 0;
            ("flip_extract", true, false)
        }
        (Phase::Squeeze, _) => {
            let r = guard(out, "call.hash.shake_extract", || with_ctx!(c => c.extract(&mut buf)));
            if r.is_err() {
                out.violate("C17", format!("hash/{}/panic:extract", alg.name()), String::new());
                return;
            }
            ("extract", true, false)
        }
        (Phase::Spent, _) => return,
    };
    if did_extract {
        let off = if reset_after { 0 } else { s.out_off };
        let full = ref_digest(alg, off + n, &[], &s.absorbed);
        let want = &full[off..];
        out.ev(format_args!("ctx#{} {} off={} n={} -> {}", id, label, off, n, hex(&buf[..n.min(24)])));
        if (off % rate) + n > rate {
            out.probe("probe.hash.shake_extract_straddles_rate");
        }
        if n == 0 {
            out.probe("probe.hash.shake_zero_length_extract");
        }
        if buf[..] != want[..] {
            out.violate(
                "C17",
                format!("hash/{}/mismatch:{}", alg.name(), label),
                format!(
                    "{} of {} bytes at output offset {} after absorbing {} bytes: got {} want {}",
                    label,
                    n,
                    off,
                    s.absorbed.len(),
                    hex(&buf),
                    hex(want)
                ),
            );
        }
        out.ops_completed += 1;
        out.probe("probe.hash.xof_segment_compared");
        if reset_after {
            s.absorbed.clear();
            s.phase = Phase::Absorb;
            s.out_off = 0;
        } else {
            s.out_off = off + n;
        }
    }
}

fn do_blake_finalize(
    t: &mut Tape,
    out: &mut RunOut,
    slots: &mut Vec<Slot>,
    si: usize,
    rng: &mut SimRng,
    next_id: &mut u32,
    new_slot: &mut impl FnMut(&mut Tape, &mut SimRng, &mut RunOut, &mut u32) -> Slot,
) {
    let alg = slots[si].alg;
    let ol = slots[si].out_len;
    let extra = t.usize(3) * 3;
    // how: 0 finalize_write (spent), 1 finalize_reset_write (fresh);
    // Blake2s256 also: 2 finalize (spent), 3 finalize_reset (fresh)
    let how = if alg == Alg::Blake2s256 { t.usize(4) } else { t.usize(2) };
    let lbl: &'static str = ["finalize_write", "finalize_reset_write", "finalize", "finalize_reset"][how];
    let s = &mut slots[si];
    let r = guard(out, "call.hash.blake2s_finalize", || {
        let mut o = vec![0xA5u8; ol + extra];
        let n = match (&mut s.ctx, how) {
            (Ctx::Blake2s(c), 0) => c.finalize_write(&mut o),
            (Ctx::Blake2s(c), _) => c.finalize_reset_write(&mut o),
            (Ctx::Keyed(c), 0) => c.finalize_write(&mut o),
            (Ctx::Keyed(c), _) => c.finalize_reset_write(&mut o),
            (Ctx::B256(c), 0) => c.finalize_write(&mut o),
            (Ctx::B256(c), 1) => c.finalize_reset_write(&mut o),
            (Ctx::B256(c), 2) => {
                let d = c.finalize();
                o[..32].copy_from_slice(&d);
                32
            }
            (Ctx::B256(c), _) => {
                let d = c.finalize_reset();
                o[..32].copy_from_slice(&d);
                32
            }
            _ => unreachable!(),
        };
        (n, o)
    });
    let resets = how == 1 || how == 3;
    if alg == Alg::KeyedBlake2s && resets {
        out.probe("probe.hash.keyed_reset");
        if !slots[si].key.is_empty() && slots[si].key.len() < 32 {
            out.probe("probe.hash.keyed_reset_short_key");
        }
    }
    let total = slots[si].absorbed.len() + if !slots[si].key.is_empty() { 64 } else { 0 };
    if total > 0 && total % 64 == 0 {
        out.probe("probe.hash.blake2s_finalize_with_full_lazy_block");
    }
    match r {
        Ok((n, got)) => {
            let want = ref_digest(alg, ol, &slots[si].key, &slots[si].absorbed);
            out.ev(format_args!("ctx#{} {} -> {}", slots[si].id, lbl, hex(&got[..ol])));
            if n != ol || got[..ol] != want[..] {
                mismatch(out, alg, lbl, &got[..ol], &want, &slots[si]);
            } else if got[ol..].iter().any(|&x| x != 0xA5) {
                mismatch(out, alg, "finalize_write:wrote-past-digest", &got, &want, &slots[si]);
            }
            out.ops_completed += 1;
            out.probe("probe.hash.digest_compared");
            let s = &mut slots[si];
            s.absorbed.clear();
            s.phase = if resets { Phase::Absorb } else { Phase::Spent };
        }
        Err(m) => {
            lib_panic(out, alg, lbl, &m, &slots[si]);
            let s = new_slot(t, rng, out, next_id);
            slots[si] = s;
        }
    }
}
