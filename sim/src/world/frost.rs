//! Sim A — the FROST world (property C15; feeds C18 and C19).
//!
//! Nodes: a trusted dealer, a coordinator, a relying party and a set of
//! signers, all running real crrl code for every cryptographic step and
//! exchanging the library's own byte encodings over a simulated network that
//! drops, duplicates, delays/reorders, corrupts (structure-aware) and replays
//! stale messages; signers crash and restart with only their simulated disk
//! surviving (lost, torn and bit-flipped files). The simulator keeps the
//! ground truth of every message, which gives every library call an exact
//! expected answer.

use crate::core::{guard_c19, RunOut};
use crate::des::{CopyKind, NetCfg, Queue};
use crate::rng::SimRng;
use crate::runner::Tier;
use crate::tape::Tape;
use crate::util::hex_abbrev;
use crate::world::mangle::{mangle, FieldKind, Layout, MangleCtx};
use crate::world::suite::Suite;
use std::collections::{BTreeMap, BTreeSet};

const DEALER: usize = 0;
const COORD: usize = 1;
const RELY: usize = 2;
const FIRST_SIGNER: usize = 3;

const MS: u64 = 1_000;
const COLLECT_WINDOW: u64 = 12 * MS;
const ATTEMPT_TIMEOUT: u64 = 45 * MS;
const DEAL_RETRY: u64 = 30 * MS;
const LIVENESS_BOUND: u64 = 12 * ATTEMPT_TIMEOUT;

#[derive(Clone, Copy, PartialEq, Eq, Debug, PartialOrd, Ord)]
enum Kind {
    Deal,
    DealAck,
    NeedShare,
    CommitReq,
    Commit,
    SignReq,
    Nack,
    Share,
    Final,
}

#[derive(Clone, Debug)]
struct Msg {
    kind: Kind,
    src: usize,
    dst: usize,
    sess: u32,
    att: u32,
    a: Vec<u8>,
    b: Vec<u8>,
    /// Ground truth (hidden from the nodes): what the sender really sent.
    orig_a: Vec<u8>,
    orig_b: Vec<u8>,
    /// The decoder must refuse `a` (set by the mangler).
    must_fail_a: bool,
    must_fail_b: bool,
}

enum Ev {
    Deliver(Msg),
    DealRetry,
    ClientRequest(u32),
    CollectWindow(u32, u32),
    AttemptTimeout(u32, u32),
    Crash(usize),
    Restart(usize),
    Heal,
}

#[derive(Clone, Copy, PartialEq, Eq, Debug)]
enum CoordMode {
    /// `choose`, send its output, verify against it.
    Proper,
    /// Builds the list itself in arrival order (no sort); sends that.
    UnsortedSent,
    /// Forgets to deduplicate; sends that.
    DuplicatesSent,
    /// Sends the proper list but verifies shares against its raw arrival-order list.
    VerifyAgainstRaw,
    /// Coordinator object configured with a threshold below the real one.
    ThresholdTooLow,
}

struct Attempt<S: Suite> {
    att: u32,
    collecting: bool,
    signing: bool,
    received: Vec<(Vec<u8>, S::Comm)>,
    list: Vec<S::Comm>,
    list_enc: Vec<u8>,
    sent_list_enc: Vec<u8>,
    shares: Vec<(Vec<u8>, S::SigShare, bool)>,
    mode: CoordMode,
    filter_shares: bool,
}

struct Session<S: Suite> {
    msg: Vec<u8>,
    k: usize,
    requested_at: u64,
    started: bool,
    done_at: Option<u64>,
    attempts: u32,
    /// Attempts started after the network healed (bounded: a session that still fails after this many
    /// clean attempts is reported by the liveness oracle instead of being retried for ever).
    attempts_after_heal: u32,
    cur: Option<Attempt<S>>,
    final_sig: Vec<u8>,
}

struct Disk {
    durable: BTreeMap<String, Vec<u8>>,
    pending: BTreeMap<String, Option<Vec<u8>>>,
}

impl Disk {
    fn new() -> Self {
        Self { durable: BTreeMap::new(), pending: BTreeMap::new() }
    }
    fn write(&mut self, name: &str, v: Vec<u8>) {
        self.pending.insert(name.to_string(), Some(v));
    }
    fn delete(&mut self, name: &str) {
        self.pending.insert(name.to_string(), None);
    }
    fn read(&self, name: &str) -> Option<Vec<u8>> {
        match self.pending.get(name) {
            Some(Some(v)) => Some(v.clone()),
            Some(None) => None,
            None => self.durable.get(name).cloned(),
        }
    }
    /// Make pending writes durable. `torn` = one file only partially written.
    fn sync(&mut self, torn: Option<(usize, usize)>) {
        let names: Vec<String> = self.pending.keys().cloned().collect();
        for (i, n) in names.iter().enumerate() {
            match self.pending.remove(n).unwrap() {
                Some(mut v) => {
                    if let Some((which, keep)) = torn {
                        if which % names.len() == i {
                            v.truncate(keep.min(v.len()));
                        }
                    }
                    self.durable.insert(n.clone(), v);
                }
                None => {
                    self.durable.remove(n);
                }
            }
        }
    }
    fn crash(&mut self) {
        self.pending.clear();
    }
}

struct Signer<S: Suite> {
    ident: u64,
    ident_wire: Vec<u8>,
    up: bool,
    share: Option<S::Share>,
    share_enc: Vec<u8>,
    nonces: BTreeMap<(u32, u32), (S::Nonce, S::Comm, Vec<u8>)>,
    disk: Disk,
    persist_nonces: bool,
    sloppy_decode: bool,
    rng: SimRng,
    restarts: u32,
}

pub struct Cfg {
    pub tier: Tier,
    pub big_n: bool,
    /// Many participating signers (10 and more), clustered small identifiers plus a few large ones.
    pub many: bool,
}

struct W<'a, S: Suite> {
    t: &'a mut Tape,
    out: &'a mut RunOut,
    q: Queue<Ev>,
    net: NetCfg,
    rng: SimRng,
    eng: String,
    // ground truth
    tmin: usize,
    n: usize,
    gpk: S::Gpk,
    gpk_enc: Vec<u8>,
    vss_enc: Vec<u8>,
    share_encs: BTreeMap<u64, Vec<u8>>,
    spk_encs: BTreeMap<u64, Vec<u8>>,
    pks: Vec<S::Spk>,
    gt_comms: BTreeMap<Vec<u8>, (usize, u32, u32)>,
    authentic: BTreeMap<(Vec<u8>, Vec<u8>, Vec<u8>), Vec<u8>>,
    // pools for the mangler
    pool_points: Vec<Vec<u8>>,
    pool_scalars: Vec<Vec<u8>>,
    pool_idents: Vec<Vec<u8>>,
    bad_points: Vec<Vec<u8>>,
    order_m1: Vec<u8>,
    history: BTreeMap<Kind, Vec<Vec<u8>>>,
    // nodes
    signers: Vec<Signer<S>>,
    acked: Vec<bool>,
    sessions: Vec<Session<S>>,
    healed: bool,
    crash_rate: u64,
    disk_fault_rate: u64,
    rng_repeat_rate: u64,
    sloppy_rate: u64,
    steps: u64,
}

fn int_be(wire: &[u8], be: bool) -> Vec<u8> {
    // normalised big-endian magnitude (no leading zeros) for integer comparison
    let mut v = wire.to_vec();
    if !be {
        v.reverse();
    }
    let nz = v.iter().position(|&x| x != 0).unwrap_or(v.len());
    v[nz..].to_vec()
}

fn cmp_int(a: &[u8], b: &[u8]) -> std::cmp::Ordering {
    a.len().cmp(&b.len()).then_with(|| a.cmp(b))
}

fn ident_wire<S: Suite>(id: u64) -> Vec<u8> {
    let mut v = vec![0u8; S::NS];
    let b = id.to_le_bytes();
    if S::SCALAR_BE {
        for i in 0..8 {
            v[S::NS - 1 - i] = b[i];
        }
    } else {
        v[..8].copy_from_slice(&b);
    }
    v
}

fn layout_share<S: Suite>() -> Layout {
    Layout { record: vec![(S::NS, FieldKind::Ident), (S::NS, FieldKind::Scalar), (S::NE, FieldKind::Point)], is_list: false }
}
fn layout_vss<S: Suite>() -> Layout {
    Layout { record: vec![(S::NE, FieldKind::Point)], is_list: true }
}
fn layout_comm<S: Suite>(list: bool) -> Layout {
    Layout { record: vec![(S::NS, FieldKind::Ident), (S::NE, FieldKind::Point), (S::NE, FieldKind::Point)], is_list: list }
}
fn layout_sigshare<S: Suite>() -> Layout {
    Layout { record: vec![(S::NS, FieldKind::Ident), (S::NS, FieldKind::Scalar)], is_list: false }
}
fn layout_sig<S: Suite>() -> Layout {
    Layout { record: vec![(S::NE, FieldKind::Point), (S::NS, FieldKind::Scalar)], is_list: false }
}
fn layout_nonce<S: Suite>() -> Layout {
    Layout { record: vec![(S::NS, FieldKind::Ident), (S::NS, FieldKind::Scalar), (S::NS, FieldKind::Scalar)], is_list: false }
}
fn layout_raw() -> Layout {
    Layout { record: vec![], is_list: false }
}

/// The harness's own statement of "well-formed commitment list", on bytes.
fn list_wellformed<S: Suite>(list_enc: &[u8]) -> bool {
    let rl = S::NS + 2 * S::NE;
    if list_enc.len() % rl != 0 || list_enc.len() / rl < 2 {
        return false;
    }
    let n = list_enc.len() / rl;
    for i in 0..n - 1 {
        let a = int_be(&list_enc[i * rl..i * rl + S::NS], S::SCALAR_BE);
        let b = int_be(&list_enc[(i + 1) * rl..(i + 1) * rl + S::NS], S::SCALAR_BE);
        if cmp_int(&a, &b) != std::cmp::Ordering::Less {
            return false;
        }
    }
    true
}

fn list_entries<S: Suite>(list_enc: &[u8]) -> Vec<&[u8]> {
    let rl = S::NS + 2 * S::NE;
    list_enc.chunks(rl).collect()
}

impl<'a, S: Suite> W<'a, S> {
    fn viol(&mut self, oracle: &str, detail: String) {
        self.out.violate("C15", format!("frost/{}/{}", S::NAME, oracle), detail);
    }

    fn send(&mut self, kind: Kind, src: usize, dst: usize, sess: u32, att: u32, a: Vec<u8>, b: Vec<u8>) {
        // Messages to/from the dealer for acks and internal control are not corrupted (they carry no library encoding).
        let mut fired: Vec<&'static str> = Vec::new();
        let plan = self.net.plan(self.t, self.q.now, &mut |k| fired.push(k));
        for k in fired {
            self.out.fault(k);
        }
        self.out.sched(kind_name(kind), src as u32, dst as u32);
        self.history.entry(kind).or_default().push(a.clone());
        if plan.is_empty() {
            self.out.ev(format_args!("net drop {:?} {}->{} s{} a{}", kind, src, dst, sess, att));
        }
        for (delay, ck) in plan {
            let mut m = Msg {
                kind,
                src,
                dst,
                sess,
                att,
                a: a.clone(),
                b: b.clone(),
                orig_a: a.clone(),
                orig_b: b.clone(),
                must_fail_a: false,
                must_fail_b: false,
            };
            match ck {
                CopyKind::Clean => {}
                CopyKind::Corrupt => self.corrupt(&mut m),
                CopyKind::Stale => {
                    let h = self.history.get(&kind).cloned().unwrap_or_default();
                    let older: Vec<&Vec<u8>> = h.iter().filter(|x| x[..] != a[..] && !x.is_empty()).collect();
                    if !older.is_empty() && matches!(kind, Kind::Commit | Kind::Share | Kind::SignReq) {
                        m.a = older[self.t.usize(older.len())].clone();
                        self.out.fault("fault.net.stale_replay");
                        self.out.ev(format_args!("net stale-replay {:?} {}->{} s{} a{}", kind, src, dst, sess, att));
                    }
                }
            }
            self.q.after(delay, Ev::Deliver(m));
        }
    }

    fn corrupt(&mut self, m: &mut Msg) {
        let (la, lb): (Option<Layout>, Option<Layout>) = match m.kind {
            Kind::Deal => (Some(layout_share::<S>()), Some(layout_vss::<S>())),
            Kind::Commit => (Some(layout_comm::<S>(false)), None),
            Kind::SignReq => (Some(layout_comm::<S>(true)), Some(layout_raw())),
            Kind::Share => (Some(layout_sigshare::<S>()), None),
            Kind::Final => (Some(layout_sig::<S>()), Some(layout_raw())),
            _ => (None, None),
        };
        if la.is_none() {
            return;
        }
        let which_b = lb.is_some() && self.t.chance(1, 3);
        let others = self.history.get(&m.kind).cloned().unwrap_or_default();
        let cx = MangleCtx {
            points: &self.pool_points,
            scalars: &self.pool_scalars,
            idents: &self.pool_idents,
            bad_points: &self.bad_points,
            order_m1: &self.order_m1,
            scalar_be: S::SCALAR_BE,
            others: if which_b { &[] } else { &others },
        };
        if which_b {
            let r = mangle(self.t, &mut self.rng, lb.as_ref().unwrap(), &m.b, &cx);
            self.out.fault(r.kind);
            self.out.ev(format_args!("net corrupt {:?}.b {}->{} s{} a{} by {} -> {}", m.kind, m.src, m.dst, m.sess, m.att, r.kind, hex_abbrev(&r.bytes)));
            m.b = r.bytes;
            m.must_fail_b = r.must_fail_decode && m.kind == Kind::Deal;
        } else {
            let r = mangle(self.t, &mut self.rng, la.as_ref().unwrap(), &m.a, &cx);
            self.out.fault(r.kind);
            self.out.ev(format_args!("net corrupt {:?}.a {}->{} s{} a{} by {} -> {}", m.kind, m.src, m.dst, m.sess, m.att, r.kind, hex_abbrev(&r.bytes)));
            m.a = r.bytes;
            m.must_fail_a = r.must_fail_decode;
        }
    }

    // ------------------------------------------------------------ dealer

    fn deal_round(&mut self) {
        let mut any = false;
        for i in 0..self.signers.len() {
            if !self.acked[i] {
                any = true;
                let id = self.signers[i].ident;
                let a = self.share_encs[&id].clone();
                let b = self.vss_enc.clone();
                self.send(Kind::Deal, DEALER, FIRST_SIGNER + i, 0, 0, a, b);
            }
        }
        if any {
            self.q.after(DEAL_RETRY, Ev::DealRetry);
        }
    }

    // ------------------------------------------------------------ signer

    /// Decode + verify a share package against a VSS commitment, with the
    /// ground-truth oracles. Returns the accepted share.
    fn signer_accept(&mut self, si: usize, a: &[u8], b: &[u8], must_fail_a: bool, must_fail_b: bool, site: &'static str) -> Option<S::Share> {
        let eng = self.eng.clone();
        let id = self.signers[si].ident;
        let orig_a = self.share_encs[&id].clone();
        let share_clean = a == &orig_a[..];
        let vss_clean = b == &self.vss_enc[..];
        let sd = guard_c19(self.out, &eng, "call.frost.share_decode", || hex_abbrev(a), || S::share_decode(a)).flatten();
        let vd = guard_c19(self.out, &eng, "call.frost.vss_decode_list", || hex_abbrev(b), || S::vss_decode_list(b)).flatten();
        self.out.ev(format_args!("signer{} {} share_decode={} vss_decode={}", id, site, sd.is_some(), vd.is_some()));
        if let Some(s) = sd {
            if S::share_encode(s) != a {
                self.viol("roundtrip:share", format!("decode accepted {} but re-encodes differently", hex_abbrev(a)));
            }
            self.out.probe("probe.frost.share_pkg_decoded");
        }
        if let Some(v) = vd.as_ref() {
            if S::vss_encode_list(v) != b {
                self.viol("roundtrip:vss_list", format!("decode_list accepted {} but re-encodes differently", hex_abbrev(b)));
            }
        }
        if must_fail_a && sd.is_some() {
            self.viol(
                "reject:share_decode",
                format!("share package with an invalid field decoded: {}", hex_abbrev(a)),
            );
        }
        if must_fail_b && vd.is_some() {
            self.viol("reject:vss_decode_list", format!("VSS list with an invalid element decoded: {}", hex_abbrev(b)));
        }
        if share_clean && sd.is_none() {
            self.viol("complete:share_decode", format!("genuine share package refused: {}", hex_abbrev(a)));
        }
        if vss_clean && vd.is_none() {
            self.viol("complete:vss_decode_list", format!("genuine VSS list refused: {}", hex_abbrev(b)));
        }
        let (s, v) = match (sd, vd) {
            (Some(s), Some(v)) => (s, v),
            _ => return None,
        };
        let ok = guard_c19(self.out, &eng, "call.frost.verify_split", || format!("share {} vss {}", hex_abbrev(a), hex_abbrev(b)), || S::share_verify_split(s, &v))?;
        self.out.ev(format_args!("signer{} {} verify_split={}", id, site, ok));
        if share_clean && vss_clean {
            if !ok {
                self.viol("complete:verify_split", format!("genuine share of signer {} fails verify_split", id));
            }
        } else {
            if !share_clean {
                self.out.probe("probe.frost.altered_share_reached_verify_split");
            } else {
                self.out.probe("probe.frost.altered_vss_reached_verify_split");
            }
            // Demanded only for an altered *share* checked against the dealer's genuine commitment.
            // An altered commitment cannot always be detected by one signer (a permutation of the
            // coefficients is invisible to signer 1, for whom sum(C_j * 1^j) is order-independent), and
            // a share + commitment pair that were both replaced may be a consistent dealing of someone
            // else: the property promises neither.
            if ok && !vss_clean {
                self.out.probe("probe.frost.altered_vss_accepted_by_verify_split");
            }
            if ok && !share_clean && vss_clean {
                let f = if a.len() == orig_a.len() {
                    if a[..S::NS] != orig_a[..S::NS] {
                        "ident"
                    } else if a[S::NS..2 * S::NS] != orig_a[S::NS..2 * S::NS] {
                        "sk"
                    } else {
                        "group_pk"
                    }
                } else {
                    "length"
                };
                self.viol(
                    &format!("reject:verify_split:share-altered-in-{}", f),
                    format!(
                        "altered share package accepted by decode + verify_split against the genuine VSS commitment, signer {}: share {} (genuine {})",
                        id,
                        crate::util::hex(a),
                        crate::util::hex(&orig_a)
                    ),
                );
            }
        }
        if ok && share_clean && vss_clean {
            Some(s)
        } else if ok {
            // An altered dealing was accepted (already reported). The node
            // keeps going with the genuine share so later oracles stay exact.
            None
        } else {
            None
        }
    }

    fn signer_on_deal(&mut self, si: usize, m: &Msg) {
        if self.signers[si].share.is_some() {
            // already provisioned: just ack again
            let id = self.signers[si].ident;
            self.send(Kind::DealAck, FIRST_SIGNER + si, DEALER, 0, 0, ident_wire::<S>(id), Vec::new());
            return;
        }
        if let Some(s) = self.signer_accept(si, &m.a, &m.b, m.must_fail_a, m.must_fail_b, "deal") {
            let sg = &mut self.signers[si];
            sg.share = Some(s);
            sg.share_enc = m.a.clone();
            sg.disk.write("share", m.a.clone());
            sg.disk.write("vss", m.b.clone());
            // disk fault: torn write of one of the two files
            let torn = if !self.healed && self.disk_fault_rate > 0 && self.t.chance(self.disk_fault_rate, 1000) {
                self.out.fault("fault.disk.torn_write");
                let which = self.t.usize(2);
                let keep = self.t.usize(m.a.len());
                Some((which, keep))
            } else {
                None
            };
            self.signers[si].disk.sync(torn);
            let id = self.signers[si].ident;
            self.send(Kind::DealAck, FIRST_SIGNER + si, DEALER, 0, 0, ident_wire::<S>(id), Vec::new());
        }
    }

    fn signer_on_commit_req(&mut self, si: usize, m: &Msg) {
        let share = match self.signers[si].share {
            Some(s) => s,
            None => {
                // not provisioned (yet / any more): ask the dealer (again)
                let id = self.signers[si].ident;
                self.send(Kind::NeedShare, FIRST_SIGNER + si, DEALER, 0, 0, ident_wire::<S>(id), Vec::new());
                return;
            }
        };
        if self.signers[si].nonces.contains_key(&(m.sess, m.att)) {
            // duplicate request: resend the same commitment, never a second nonce for the same slot
            let c = self.signers[si].nonces[&(m.sess, m.att)].2.clone();
            self.send(Kind::Commit, FIRST_SIGNER + si, COORD, m.sess, m.att, c, Vec::new());
            return;
        }
        if !self.healed && self.rng_repeat_rate > 0 && self.t.chance(self.rng_repeat_rate, 1000) {
            self.signers[si].rng.repeat_next = true;
            self.out.fault("fault.rng.repeat");
        }
        let eng = self.eng.clone();
        let sg = &mut self.signers[si];
        let r = guard_c19(self.out, &eng, "call.frost.commit", || String::new(), || S::share_commit(share, &mut sg.rng));
        let (nonce, comm) = match r {
            Some(x) => x,
            None => return,
        };
        let ce = S::comm_encode(comm);
        self.gt_comms.insert(ce.clone(), (si, m.sess, m.att));
        self.pool_points.push(ce[S::NS..S::NS + S::NE].to_vec());
        if self.pool_points.len() > 64 {
            self.pool_points.remove(8);
        }
        let id = self.signers[si].ident;
        self.out.ev(format_args!("signer{} commit s{} a{} -> {}", id, m.sess, m.att, hex_abbrev(&ce)));
        if self.signers[si].persist_nonces {
            let ne = S::nonce_encode(nonce);
            // wire round trip of the nonce file
            match S::nonce_decode(&ne) {
                Some(n2) => {
                    if S::nonce_encode(n2) != ne || S::comm_encode(S::nonce_commitment(n2)) != ce {
                        self.viol("roundtrip:nonce", format!("nonce {} does not survive encode/decode", hex_abbrev(&ne)));
                    }
                }
                None => self.viol("roundtrip:nonce", "Nonce::decode refused Nonce::encode output".to_string()),
            }
            let sg = &mut self.signers[si];
            sg.disk.write(&format!("nonce/{}/{}", m.sess, m.att), ne);
            sg.disk.sync(None);
            self.out.probe("probe.frost.nonce_persisted");
        }
        self.signers[si].nonces.insert((m.sess, m.att), (nonce, comm, ce.clone()));
        self.send(Kind::Commit, FIRST_SIGNER + si, COORD, m.sess, m.att, ce, Vec::new());
        // crash right after sending a commitment (biased crash point)
        self.maybe_crash(si, "after_commit");
    }

    fn signer_on_sign_req(&mut self, si: usize, m: &Msg) {
        let eng = self.eng.clone();
        let share = match self.signers[si].share {
            Some(s) => s,
            None => return,
        };
        let id = self.signers[si].ident;
        let list_clean = m.a == m.orig_a;
        let wf = list_wellformed::<S>(&m.a);
        let dl = guard_c19(self.out, &eng, "call.frost.comm_decode_list", || hex_abbrev(&m.a), || S::comm_decode_list(&m.a)).flatten();
        if let Some(l) = dl.as_ref() {
            if S::comm_encode_list(l) != m.a {
                self.viol("roundtrip:commitment_list", format!("decode_list accepted {} but re-encodes differently", hex_abbrev(&m.a)));
            }
            if !wf {
                self.viol(
                    "reject:comm_decode_list",
                    format!("decode_list accepted a list that is not >=2 strictly ascending entries: {}", crate::util::hex(&m.a)),
                );
            }
        }
        if m.must_fail_a && dl.is_some() {
            self.viol("reject:comm_decode_list", format!("commitment list with an invalid field decoded: {}", hex_abbrev(&m.a)));
        }
        if list_clean && wf && dl.is_none() {
            self.viol("complete:comm_decode_list", format!("genuine well-formed commitment list refused: {}", hex_abbrev(&m.a)));
        }
        // A sloppy signer decodes the entries one by one (legal calls on public data)
        let list: Option<Vec<S::Comm>> = match dl {
            Some(l) => Some(l),
            None if self.signers[si].sloppy_decode => {
                let rl = S::NS + 2 * S::NE;
                if m.a.len() % rl == 0 && !m.a.is_empty() {
                    let mut v = Vec::new();
                    let mut ok = true;
                    for ch in m.a.chunks(rl) {
                        match guard_c19(self.out, &eng, "call.frost.comm_decode", || hex_abbrev(ch), || S::comm_decode(ch)).flatten() {
                            Some(c) => v.push(c),
                            None => {
                                ok = false;
                                break;
                            }
                        }
                    }
                    if ok {
                        self.out.probe("probe.frost.sloppy_list_reached_sign");
                        Some(v)
                    } else {
                        None
                    }
                } else {
                    None
                }
            }
            None => None,
        };
        let list = match list {
            Some(l) => l,
            None => {
                self.out.ev(format_args!("signer{} signreq s{} a{}: list refused", id, m.sess, m.att));
                self.send(Kind::Nack, FIRST_SIGNER + si, COORD, m.sess, m.att, Vec::new(), Vec::new());
                return;
            }
        };
        // find our nonce: RAM first, then the disk copy
        let mut slot = self.signers[si].nonces.get(&(m.sess, m.att)).cloned();
        if slot.is_none() && self.signers[si].persist_nonces {
            if let Some(ne) = self.signers[si].disk.read(&format!("nonce/{}/{}", m.sess, m.att)) {
                let nd = guard_c19(self.out, &eng, "call.frost.nonce_decode", || hex_abbrev(&ne), || S::nonce_decode(&ne)).flatten();
                if let Some(n) = nd {
                    let c = S::nonce_commitment(n);
                    let ce = S::comm_encode(c);
                    // Only a nonce whose commitment we really generated is used (a damaged file is dropped)
                    if self.gt_comms.contains_key(&ce) {
                        self.out.probe("probe.frost.nonce_restored_from_disk");
                        slot = Some((n, c, ce));
                    }
                }
            }
        }
        let (nonce, comm, ce) = match slot {
            Some(x) => x,
            None => {
                self.out.ev(format_args!("signer{} signreq s{} a{}: no nonce", id, m.sess, m.att));
                self.send(Kind::Nack, FIRST_SIGNER + si, COORD, m.sess, m.att, Vec::new(), Vec::new());
                return;
            }
        };
        // expected answer, from the bytes alone
        let idw = self.signers[si].ident_wire.clone();
        let own: Vec<&[u8]> = list_entries::<S>(&m.a).into_iter().filter(|e| e[..S::NS] == idw[..]).collect();
        let expect_some = wf && own.len() == 1 && own[0] == &ce[..];
        let msg = m.b.clone();
        let r = guard_c19(
            self.out,
            &eng,
            "call.frost.sign",
            || format!("list {} msg {}", crate::util::hex(&m.a), hex_abbrev(&msg)),
            || S::share_sign(share, nonce, comm, &msg, &list),
        );
        let r = match r {
            Some(x) => x,
            None => return,
        };
        self.out.ev(format_args!("signer{} sign s{} a{} -> {}", id, m.sess, m.att, r.is_some()));
        if !list_clean {
            self.out.probe("probe.frost.altered_list_reached_sign");
        }
        if r.is_some() != expect_some {
            let o = if expect_some { "complete:sign" } else { "reject:sign" };
            self.viol(
                o,
                format!(
                    "sign() returned {} but the documented conditions say {} (list well-formed={}, own entries={}, own entry matches={}) list={} own commitment={}",
                    if r.is_some() { "Some" } else { "None" },
                    if expect_some { "Some" } else { "None" },
                    wf,
                    own.len(),
                    own.len() == 1 && own[0] == &ce[..],
                    crate::util::hex(&m.a),
                    crate::util::hex(&ce)
                ),
            );
        }
        match r {
            Some(ss) => {
                let se = S::sigshare_encode(ss);
                self.authentic.insert((idw.clone(), m.a.clone(), msg.clone()), se.clone());
                self.pool_scalars.push(se[S::NS..].to_vec());
                if self.pool_scalars.len() > 32 {
                    self.pool_scalars.remove(4);
                }
                // the nonce is used: delete it (RAM and disk) before the share leaves
                self.signers[si].nonces.remove(&(m.sess, m.att));
                if self.signers[si].persist_nonces {
                    let sg = &mut self.signers[si];
                    sg.disk.delete(&format!("nonce/{}/{}", m.sess, m.att));
                    sg.disk.sync(None);
                }
                // A Byzantine signer (only while faults flow): instead of its honest share it sends one that it
                // *computed* - for another message, with the two nonce halves swapped, or negated. Each is a
                // well-formed share that is not the authentic one for (list, msg): the coordinator's
                // verification must refuse it (ground truth: it is not in `authentic`).
                let mut se = se;
                if !self.healed && self.t.chance(1, 14) {
                    let byz: Option<Vec<u8>> = match self.t.usize(3) {
                        0 => {
                            let mut other = msg.clone();
                            other.push(0x42);
                            guard_c19(self.out, &eng, "call.frost.sign", || "byzantine: other message".to_string(), || S::share_sign(share, nonce, comm, &other, &list)).flatten().map(S::sigshare_encode)
                        }
                        1 => {
                            // wire layout: identifier | hiding nonce | binding nonce (NS bytes each)
                            let ne = S::nonce_encode(nonce);
                            let swapped: Vec<u8> = [&ne[..S::NS], &ne[2 * S::NS..], &ne[S::NS..2 * S::NS]].concat();
                            match guard_c19(self.out, &eng, "call.frost.nonce_decode", || crate::util::hex(&swapped), || S::nonce_decode(&swapped)).flatten() {
                                Some(n2) => guard_c19(self.out, &eng, "call.frost.sign", || "byzantine: nonce halves swapped".to_string(), || S::share_sign(share, n2, comm, &msg, &list)).flatten().map(S::sigshare_encode),
                                None => None,
                            }
                        }
                        _ => {
                            // -z: order - z on the wire bytes
                            let mut z = se[S::NS..].to_vec();
                            let mut om1 = S::order_minus_one_wire();
                            if S::SCALAR_BE {
                                z.reverse();
                                om1.reverse();
                            }
                            let mut borrow = 0i16;
                            let mut r = vec![0u8; z.len()];
                            for i in 0..z.len() {
                                let d = om1[i] as i16 - z[i] as i16 - borrow;
                                if d < 0 { r[i] = (d + 256) as u8; borrow = 1; } else { r[i] = d as u8; borrow = 0; }
                            }
                            // + 1
                            for x in r.iter_mut() {
                                let (v, c) = x.overflowing_add(1);
                                *x = v;
                                if !c { break; }
                            }
                            if S::SCALAR_BE {
                                r.reverse();
                            }
                            let mut out = se[..S::NS].to_vec();
                            out.extend_from_slice(&r);
                            Some(out)
                        }
                    };
                    if let Some(b) = byz {
                        if b != se && b.len() == se.len() {
                            self.out.fault("fault.byzantine.signer_sends_computed_wrong_share");
                            se = b;
                        }
                    }
                }
                self.send(Kind::Share, FIRST_SIGNER + si, COORD, m.sess, m.att, se, Vec::new());
                self.maybe_crash(si, "after_sign");
            }
            None => {
                self.send(Kind::Nack, FIRST_SIGNER + si, COORD, m.sess, m.att, Vec::new(), Vec::new());
            }
        }
    }

    fn maybe_crash(&mut self, si: usize, site: &'static str) {
        if self.healed || self.crash_rate == 0 || !self.signers[si].up {
            return;
        }
        if self.t.chance(self.crash_rate, 1000) {
            self.out.fault(match site {
                "after_commit" => "fault.crash.signer_after_commit",
                "after_sign" => "fault.crash.signer_after_sign",
                _ => "fault.crash.signer_random",
            });
            self.q.after(0, Ev::Crash(FIRST_SIGNER + si));
        }
    }

    fn crash(&mut self, node: usize) {
        let si = node - FIRST_SIGNER;
        if !self.signers[si].up {
            return;
        }
        let id = self.signers[si].ident;
        self.out.ev(format_args!("CRASH signer{}", id));
        self.out.sched("crash", node as u32, 0);
        let sg = &mut self.signers[si];
        sg.up = false;
        sg.share = None;
        sg.nonces.clear();
        sg.disk.crash();
        // bit rot at rest
        if self.disk_fault_rate > 0 && self.t.chance(self.disk_fault_rate, 1000) {
            let names: Vec<String> = self.signers[si].disk.durable.keys().cloned().collect();
            if !names.is_empty() {
                let n = &names[self.t.usize(names.len())];
                let f = self.signers[si].disk.durable.get_mut(n).unwrap();
                if !f.is_empty() {
                    let i = self.t.usize(f.len());
                    f[i] ^= 1 << self.t.usize(8);
                    self.out.fault("fault.disk.bitflip_at_rest");
                }
            }
        }
        let down = 5 * MS + self.t.choose(60 * MS);
        self.q.after(down, Ev::Restart(node));
    }

    fn restart(&mut self, node: usize) {
        let si = node - FIRST_SIGNER;
        if self.signers[si].up {
            return;
        }
        let id = self.signers[si].ident;
        self.signers[si].up = true;
        self.signers[si].restarts += 1;
        self.out.ev(format_args!("RESTART signer{}", id));
        self.out.sched("restart", node as u32, 0);
        self.out.probe("probe.frost.signer_restarted");
        let a = self.signers[si].disk.read("share");
        let b = self.signers[si].disk.read("vss");
        let mut ok = false;
        if let (Some(a), Some(b)) = (a, b) {
            if a != self.share_encs[&id] || b != self.vss_enc {
                self.out.probe("probe.frost.damaged_share_file_read_after_restart");
            }
            if let Some(s) = self.signer_accept(si, &a, &b, false, false, "restart") {
                self.signers[si].share = Some(s);
                self.signers[si].share_enc = a;
                ok = true;
            }
        }
        if !ok {
            // ask the dealer again
            self.out.probe("probe.frost.share_rerequested");
            self.send(Kind::NeedShare, node, DEALER, 0, 0, ident_wire::<S>(id), Vec::new());
        }
    }

    // ------------------------------------------------------------ coordinator

    fn start_attempt(&mut self, s: u32) {
        let sess = &mut self.sessions[s as usize];
        if sess.done_at.is_some() {
            return;
        }
        sess.attempts += 1;
        if self.healed {
            sess.attempts_after_heal += 1;
        }
        let att = sess.attempts;
        let healed = self.healed;
        let mode = if !healed && self.sloppy_rate > 0 && self.t.chance(self.sloppy_rate, 1000) {
            let m = [CoordMode::UnsortedSent, CoordMode::DuplicatesSent, CoordMode::VerifyAgainstRaw, CoordMode::ThresholdTooLow][self.t.usize(4)];
            self.out.fault(match m {
                CoordMode::UnsortedSent => "fault.buggify.coordinator_sends_unsorted_list",
                CoordMode::DuplicatesSent => "fault.buggify.coordinator_keeps_duplicates",
                CoordMode::VerifyAgainstRaw => "fault.buggify.coordinator_verifies_against_raw_list",
                _ => "fault.buggify.coordinator_threshold_too_low",
            });
            m
        } else {
            CoordMode::Proper
        };
        let filter_shares = self.t.chance(1, 2);
        self.sessions[s as usize].cur = Some(Attempt {
            att,
            collecting: true,
            signing: false,
            received: Vec::new(),
            list: Vec::new(),
            list_enc: Vec::new(),
            sent_list_enc: Vec::new(),
            shares: Vec::new(),
            mode,
            filter_shares,
        });
        self.out.ev(format_args!("coord s{} attempt {} mode {:?}", s, att, mode));
        // ask a tape-chosen superset of k signers (all of them in the simplest case)
        let ns = self.signers.len();
        let k = self.sessions[s as usize].k;
        let ask_all = healed || self.t.chance(2, 3);
        let mut targets: Vec<usize> = (0..ns).collect();
        if !ask_all && ns > k {
            // drop some, keeping at least k
            let dropn = self.t.usize(ns - k + 1);
            for _ in 0..dropn {
                let i = self.t.usize(targets.len());
                targets.remove(i);
            }
        }
        // arrival order of requests is itself a schedule decision
        let rot = self.t.usize(targets.len());
        targets.rotate_left(rot);
        for si in targets {
            self.send(Kind::CommitReq, COORD, FIRST_SIGNER + si, s, att, Vec::new(), Vec::new());
        }
        self.q.after(COLLECT_WINDOW, Ev::CollectWindow(s, att));
        self.q.after(ATTEMPT_TIMEOUT, Ev::AttemptTimeout(s, att));
    }

    fn coord_on_commit(&mut self, m: &Msg) {
        let eng = self.eng.clone();
        let s = m.sess as usize;
        if s >= self.sessions.len() {
            return;
        }
        let cur_ok = matches!(&self.sessions[s].cur, Some(a) if a.att == m.att && a.collecting);
        // decode is exercised on everything that arrives, current or not
        let cd = guard_c19(self.out, &eng, "call.frost.comm_decode", || hex_abbrev(&m.a), || S::comm_decode(&m.a)).flatten();
        if let Some(c) = cd {
            if S::comm_encode(c) != m.a {
                self.viol("roundtrip:commitment", format!("decode accepted {} but re-encodes differently", hex_abbrev(&m.a)));
            }
        }
        if m.must_fail_a && cd.is_some() {
            self.viol("reject:comm_decode", format!("commitment with an invalid field decoded: {}", crate::util::hex(&m.a)));
        }
        if m.a == m.orig_a && cd.is_none() {
            self.viol("complete:comm_decode", format!("genuine commitment refused: {}", hex_abbrev(&m.a)));
        }
        let c = match cd {
            Some(c) => c,
            None => return,
        };
        if !cur_ok {
            return;
        }
        if m.a != m.orig_a {
            self.out.probe("probe.frost.altered_commitment_decoded_at_coordinator");
        }
        let k = self.sessions[s].k;
        let a = self.sessions[s].cur.as_mut().unwrap();
        if a.received.iter().any(|(e, _)| e[..S::NS] == m.a[..S::NS]) {
            self.out.probe("probe.frost.duplicate_ident_commitment_received");
        }
        a.received.push((m.a.clone(), c));
        // enough distinct identifiers? then choose right away
        let distinct: BTreeSet<&[u8]> = a.received.iter().map(|(e, _)| &e[..S::NS]).collect();
        let want = match a.mode {
            CoordMode::ThresholdTooLow => k, // collect as usual; the coordinator object is what is misconfigured
            _ => k,
        };
        if distinct.len() >= want {
            self.coord_choose(m.sess);
        }
    }

    fn coord_choose(&mut self, s: u32) {
        let eng = self.eng.clone();
        let si = s as usize;
        let (k, msg) = (self.sessions[si].k, self.sessions[si].msg.clone());
        let a = match self.sessions[si].cur.as_mut() {
            Some(a) if a.collecting => a,
            _ => return,
        };
        let recv: Vec<S::Comm> = a.received.iter().map(|x| x.1).collect();
        let recv_enc: Vec<Vec<u8>> = a.received.iter().map(|x| x.0.clone()).collect();
        let mode = a.mode;
        let att = a.att;
        let kk = if mode == CoordMode::ThresholdTooLow { (self.tmin - 1).max(2).min(k) } else { k };
        if mode == CoordMode::ThresholdTooLow && kk >= self.tmin {
            // t == 2: cannot go lower than the documented minimum; behave properly
        }
        let coord = match S::coord_new(kk, self.gpk) {
            Some(c) => c,
            None => {
                self.viol("complete:coordinator_new", format!("Coordinator::new({}) refused", kk));
                return;
            }
        };
        let chosen = guard_c19(self.out, &eng, "call.frost.choose", || format!("{} commitments", recv.len()), || S::coord_choose(coord, &recv));
        let chosen = match chosen {
            Some(c) => c,
            None => return,
        };
        // model of selection: arrival order, first per identifier, stop at kk distinct, sort by integer identifier
        let mut model: Vec<&Vec<u8>> = Vec::new();
        for e in recv_enc.iter() {
            if !model.iter().any(|x| x[..S::NS] == e[..S::NS]) {
                model.push(e);
                if model.len() >= kk {
                    break;
                }
            }
        }
        let model_some = model.len() >= kk;
        model.sort_by(|x, y| cmp_int(&int_be(&x[..S::NS], S::SCALAR_BE), &int_be(&y[..S::NS], S::SCALAR_BE)));
        let model_enc: Vec<u8> = model.iter().flat_map(|x| x.iter().cloned()).collect();
        match (&chosen, model_some) {
            (Some(l), true) => {
                let le = S::comm_encode_list(l);
                if le != model_enc {
                    self.viol(
                        "model:choose",
                        format!(
                            "choose() returned {} but 'first per identifier in arrival order, stop at {} distinct, sort ascending' gives {} (received {})",
                            crate::util::hex(&le),
                            kk,
                            crate::util::hex(&model_enc),
                            recv_enc.iter().map(|x| crate::util::hex(x)).collect::<Vec<_>>().join(" ")
                        ),
                    );
                }
            }
            (None, false) => {}
            (Some(_), false) => self.viol("model:choose", format!("choose() returned a list from fewer than {} distinct identifiers", kk)),
            (None, true) => self.viol("model:choose", format!("choose() returned None although {} distinct identifiers were received", kk)),
        }
        let proper = match chosen {
            Some(l) => l,
            None => return, // keep collecting until the attempt times out
        };
        if proper.iter().any(|c| {
            let e = S::comm_encode(*c);
            int_be(&e[..S::NS], S::SCALAR_BE).len() >= 2
        }) {
            self.out.probe("probe.frost.identifier_ge_256_chosen");
        }
        // what this coordinator sends and what it verifies against
        let raw_first_k = {
            let mut v: Vec<S::Comm> = Vec::new();
            let mut seen: Vec<&[u8]> = Vec::new();
            for (i, e) in recv_enc.iter().enumerate() {
                if !seen.contains(&&e[..S::NS]) {
                    seen.push(&e[..S::NS]);
                    v.push(recv[i]);
                    if v.len() >= kk {
                        break;
                    }
                }
            }
            v
        };
        let raw_with_dups: Vec<S::Comm> = recv.iter().cloned().take(kk + 2).collect();
        let (sent, verify): (Vec<S::Comm>, Vec<S::Comm>) = match mode {
            CoordMode::Proper | CoordMode::ThresholdTooLow => (proper.clone(), proper.clone()),
            CoordMode::UnsortedSent => (raw_first_k.clone(), raw_first_k.clone()),
            CoordMode::DuplicatesSent => (raw_with_dups.clone(), raw_with_dups.clone()),
            CoordMode::VerifyAgainstRaw => (proper.clone(), if self.t.chance(1, 2) { raw_first_k.clone() } else { raw_with_dups.clone() }),
        };
        let sent_enc = S::comm_encode_list(&sent);
        let verify_enc = S::comm_encode_list(&verify);
        self.out.ev(format_args!(
            "coord s{} a{} chose {} signers, list {}",
            s,
            att,
            sent.len(),
            hex_abbrev(&sent_enc)
        ));
        {
            let a = self.sessions[si].cur.as_mut().unwrap();
            a.collecting = false;
            a.signing = true;
            a.list = verify;
            a.list_enc = verify_enc;
            a.sent_list_enc = sent_enc.clone();
        }
        // stale-commitment probe: an entry generated for another attempt/session
        for e in list_entries::<S>(&sent_enc) {
            match self.gt_comms.get(e) {
                Some(&(_, gs, ga)) if gs != s || ga != att => self.out.probe("probe.frost.stale_commitment_chosen"),
                None => self.out.probe("probe.frost.altered_commitment_chosen"),
                _ => {}
            }
        }
        // send to the signers named in the list (one request per distinct identifier)
        let mut done: Vec<Vec<u8>> = Vec::new();
        for e in list_entries::<S>(&sent_enc) {
            let idw = e[..S::NS].to_vec();
            if done.contains(&idw) {
                continue;
            }
            done.push(idw.clone());
            if let Some(pos) = self.signers.iter().position(|sg| sg.ident_wire == idw) {
                self.send(Kind::SignReq, COORD, FIRST_SIGNER + pos, s, att, sent_enc.clone(), msg.clone());
            }
        }
    }

    fn coord_on_share(&mut self, m: &Msg) {
        let eng = self.eng.clone();
        let s = m.sess as usize;
        if s >= self.sessions.len() {
            return;
        }
        let sd = guard_c19(self.out, &eng, "call.frost.sigshare_decode", || hex_abbrev(&m.a), || S::sigshare_decode(&m.a)).flatten();
        if let Some(x) = sd {
            if S::sigshare_encode(x) != m.a {
                self.viol("roundtrip:signature_share", format!("decode accepted {} but re-encodes differently", hex_abbrev(&m.a)));
            }
        }
        if m.must_fail_a && sd.is_some() {
            self.viol("reject:sigshare_decode", format!("signature share with an invalid field decoded: {}", crate::util::hex(&m.a)));
        }
        if m.a == m.orig_a && sd.is_none() && !m.a.is_empty() {
            self.viol("complete:sigshare_decode", format!("genuine signature share refused: {}", hex_abbrev(&m.a)));
        }
        let ss = match sd {
            Some(x) => x,
            None => return,
        };
        let cur_ok = matches!(&self.sessions[s].cur, Some(a) if a.att == m.att && a.signing);
        if !cur_ok {
            return;
        }
        let idw = m.a[..S::NS].to_vec();
        let (list, list_enc) = {
            let a = self.sessions[s].cur.as_ref().unwrap();
            (a.list.clone(), a.list_enc.clone())
        };
        let msg = self.sessions[s].msg.clone();
        // individual verification against the coordinator's list
        let mut verified = false;
        // Which public key does the coordinator check the share against? Either the one named by the
        // share's identifier field, or (tape choice) the one of the node the share came from -- the
        // library documents that a share "really ours" is required, so a relabelled share must fail.
        let by_sender = m.src >= FIRST_SIGNER && self.t.chance(1, 3);
        let pk_ident: Vec<u8> = if by_sender { self.signers[m.src - FIRST_SIGNER].ident_wire.clone() } else { idw.clone() };
        if by_sender && pk_ident != idw {
            self.out.probe("probe.frost.share_checked_against_other_signers_key");
        }
        if let Some(pos) = self.spk_encs.iter().position(|(_, e)| e[..S::NS] == pk_ident[..]) {
            let spk = self.pks[pos];
            let gpk = self.gpk;
            let r = guard_c19(
                self.out,
                &eng,
                "call.frost.verify_signature_share",
                || format!("share {} list {} msg {}", crate::util::hex(&m.a), crate::util::hex(&list_enc), hex_abbrev(&msg)),
                || S::spk_verify_share(spk, ss, &list, gpk, &msg),
            );
            if let Some(r) = r {
                let wf = list_wellformed::<S>(&list_enc);
                let auth = self.authentic.get(&(idw.clone(), list_enc.clone(), msg.clone()));
                let expect = wf && pk_ident == idw && auth.map(|x| x[..] == m.a[..]).unwrap_or(false);
                self.out.ev(format_args!("coord s{} a{} verify_share ident {} -> {}", m.sess, m.att, hex_abbrev(&int_be(&idw, S::SCALAR_BE)), r));
                if m.a != m.orig_a {
                    self.out.probe("probe.frost.altered_share_reached_verifier");
                }
                if !wf {
                    self.out.probe("probe.frost.sloppy_list_reached_verify_signature_share");
                }
                if r != expect {
                    let o = if expect { "complete:verify_signature_share" } else { "reject:verify_signature_share" };
                    self.viol(
                        o,
                        format!(
                            "verify_signature_share returned {} but ground truth says {} (list well-formed={}, authentic share for this (list,msg) {}): share {} list {} msg {}",
                            r,
                            expect,
                            wf,
                            match auth {
                                Some(x) => crate::util::hex(x),
                                None => "none".into(),
                            },
                            crate::util::hex(&m.a),
                            crate::util::hex(&list_enc),
                            hex_abbrev(&msg)
                        ),
                    );
                }
                verified = r;
            }
        }
        let a = self.sessions[s].cur.as_mut().unwrap();
        a.shares.push((m.a.clone(), ss, verified));
        // all identifiers of the list covered?
        let filter = a.filter_shares;
        let mut covered = true;
        for e in list_entries::<S>(&a.list_enc) {
            let has = a.shares.iter().any(|(se, _, v)| se[..S::NS] == e[..S::NS] && (*v || !filter));
            if !has {
                covered = false;
                break;
            }
        }
        if covered {
            self.coord_assemble(m.sess);
        }
    }

    fn coord_assemble(&mut self, s: u32) {
        let eng = self.eng.clone();
        let si = s as usize;
        let (list, list_enc, shares_all, filter, mode, att) = {
            let a = match self.sessions[si].cur.as_ref() {
                Some(a) if a.signing => a,
                _ => return,
            };
            (a.list.clone(), a.list_enc.clone(), a.shares.clone(), a.filter_shares, a.mode, a.att)
        };
        let msg = self.sessions[si].msg.clone();
        let k = self.sessions[si].k;
        let shares: Vec<(Vec<u8>, S::SigShare)> = shares_all.iter().filter(|x| x.2 || !filter).map(|x| (x.0.clone(), x.1)).collect();
        let share_vals: Vec<S::SigShare> = shares.iter().map(|x| x.1).collect();
        // signer public keys: genuine, but order and extras are a schedule decision
        let mut pks = self.pks.clone();
        let rot = self.t.usize(pks.len());
        pks.rotate_left(rot);
        if self.t.chance(1, 4) {
            // the same genuine key listed twice (the directory "need not be in any particular order" and may
            // hold extra keys): the answer must not change
            let d = pks[self.t.usize(pks.len())];
            let at = self.t.usize(pks.len() + 1);
            pks.insert(at, d);
            self.out.probe("probe.frost.duplicate_key_in_directory");
        }
        let mut kk = if mode == CoordMode::ThresholdTooLow { (self.tmin - 1).max(2).min(k) } else { k };
        if mode == CoordMode::Proper && k > self.tmin && self.t.chance(1, 2) {
            // a coordinator configured with the group's real threshold t assembling over a larger signer set
            // (the set was chosen by a coordinator object asked for k > t signers): any set of at least t works
            kk = self.tmin;
            self.out.probe("probe.frost.threshold_coordinator_assembles_larger_set");
        }
        let coord = S::coord_new(kk, self.gpk).unwrap();
        let r = guard_c19(
            self.out,
            &eng,
            "call.frost.assemble_signature",
            || format!("{} shares, list {} msg {}", share_vals.len(), crate::util::hex(&list_enc), hex_abbrev(&msg)),
            || S::coord_assemble(coord, &share_vals, &list, &pks, &msg),
        );
        let r = match r {
            Some(x) => x,
            None => {
                self.fail_attempt(s, att);
                return;
            }
        };
        // expected: well-formed list of at least t entries, and for every entry the FIRST share with
        // that identifier is the authentic one for exactly (list, msg)
        let wf = list_wellformed::<S>(&list_enc);
        let entries = list_entries::<S>(&list_enc);
        let mut expect = wf && entries.len() >= self.tmin;
        if expect {
            for e in entries.iter() {
                let idw = &e[..S::NS];
                match shares.iter().find(|(se, _)| &se[..S::NS] == idw) {
                    Some((se, _)) => {
                        let auth = self.authentic.get(&(idw.to_vec(), list_enc.clone(), msg.clone()));
                        if auth.map(|x| x[..] != se[..]).unwrap_or(true) {
                            expect = false;
                        }
                    }
                    None => expect = false,
                }
            }
        }
        self.out.ev(format_args!("coord s{} a{} assemble -> {}", s, att, r.is_some()));
        if !wf {
            self.out.probe("probe.frost.sloppy_list_reached_assemble");
        }
        if wf && entries.len() < self.tmin {
            self.out.probe("probe.frost.below_threshold_list_reached_assemble");
        }
        if entries.len() > self.tmin {
            self.out.probe("probe.frost.more_than_threshold_signers");
        }
        if r.is_some() != expect {
            let o = if expect { "complete:assemble_signature" } else { "reject:assemble_signature" };
            self.viol(
                o,
                format!(
                    "assemble_signature returned {} but ground truth says {} (list well-formed={}, entries={}, t={}): list {} shares [{}] msg {}",
                    if r.is_some() { "Some" } else { "None" },
                    if expect { "Some" } else { "None" },
                    wf,
                    entries.len(),
                    self.tmin,
                    crate::util::hex(&list_enc),
                    shares.iter().map(|x| crate::util::hex(&x.0)).collect::<Vec<_>>().join(" "),
                    hex_abbrev(&msg)
                ),
            );
        }
        // Legal but unusual calls on the same public data (tape-chosen, rare): empty and one-element
        // lists, no shares, no public keys, an empty message. Each has a forced answer and must not panic.
        if self.t.chance(1, 10) {
            self.degenerate_calls(&coord, &share_vals, &list, &pks, &msg);
        }
        match r {
            Some(sig) => {
                let se = S::sig_encode(sig);
                self.check_signature(&se, sig, &msg, "assembled");
                // provenance of every list entry
                for e in entries.iter() {
                    if !self.gt_comms.contains_key(*e) {
                        self.viol("sound:provenance", format!("a signature was assembled over a commitment nobody generated: {}", crate::util::hex(e)));
                    }
                }
                let ids: Vec<Vec<u8>> = entries.iter().map(|e| int_be(&e[..S::NS], S::SCALAR_BE)).collect();
                let contiguous = ids.windows(2).all(|w| {
                    let a = w[0].iter().fold(0u64, |acc, &b| (acc << 8) | b as u64);
                    let b = w[1].iter().fold(0u64, |acc, &b| (acc << 8) | b as u64);
                    b == a + 1
                });
                if !contiguous {
                    self.out.probe("probe.frost.noncontiguous_identifier_set_signed");
                }
                let now = self.q.now;
                let sess = &mut self.sessions[si];
                sess.done_at = Some(now);
                sess.final_sig = se.clone();
                if let Some(a) = sess.cur.as_mut() {
                    a.signing = false;
                }
                self.out.ops_completed += 1;
                self.out.probe("probe.frost.signature_assembled");
                self.pool_points.push(se[..S::NE].to_vec());
                // hand it to the relying party through the network
                self.send(Kind::Final, COORD, RELY, s, att, se, msg);
            }
            None => self.fail_attempt(s, att),
        }
    }

    fn degenerate_calls(&mut self, coord: &S::Coord, shares: &[S::SigShare], list: &[S::Comm], pks: &[S::Spk], msg: &[u8]) {
        let eng = self.eng.clone();
        let gpk = self.gpk;
        self.out.probe("probe.frost.degenerate_calls_exercised");
        let empty_l: Vec<S::Comm> = Vec::new();
        let empty_s: Vec<S::SigShare> = Vec::new();
        let empty_p: Vec<S::Spk> = Vec::new();
        let one: Vec<S::Comm> = list.iter().cloned().take(1).collect();
        let c = *coord;
        // (label, expected-None?) -- every one of these must be None: fewer than t >= 2 signers can never
        // produce a signature that verifies under the group key.
        let r1 = guard_c19(self.out, &eng, "call.frost.assemble_signature", || "empty list".into(), || S::coord_assemble(c, shares, &empty_l, pks, msg));
        let r2 = guard_c19(self.out, &eng, "call.frost.assemble_signature", || "one-element list".into(), || S::coord_assemble(c, shares, &one, pks, msg));
        let r3 = guard_c19(self.out, &eng, "call.frost.assemble_signature", || "no shares".into(), || S::coord_assemble(c, &empty_s, list, pks, msg));
        let r4 = guard_c19(self.out, &eng, "call.frost.assemble_signature", || "no public keys".into(), || S::coord_assemble(c, shares, list, &empty_p, msg));
        for (i, r) in [r1, r2, r3, r4].iter().enumerate() {
            if let Some(Some(sig)) = r {
                let se = S::sig_encode(*sig);
                self.viol(
                    "reject:assemble_signature:degenerate",
                    format!("assemble_signature returned a signature for degenerate arguments (case {}: 0=empty list, 1=one-element list, 2=no shares, 3=no public keys): {}", i, crate::util::hex(&se)),
                );
            }
        }
        // coordinator objects at the edges of the documented domain: a threshold below 2 is refused at
        // construction; one at the documented maximum group size is legal and simply finds too few commitments
        for k in [0usize, 1] {
            let r = guard_c19(self.out, &eng, "call.frost.coordinator_new", || format!("min_signers={}", k), || S::coord_new(k, gpk).is_some());
            if r == Some(true) {
                self.viol("reject:coordinator_new", format!("Coordinator::new({}) accepted a threshold below 2", k));
            }
        }
        if let Some(Some(big)) = guard_c19(self.out, &eng, "call.frost.coordinator_new", || "min_signers=65535".into(), || S::coord_new(65535, gpk)) {
            let r = guard_c19(self.out, &eng, "call.frost.choose", || "threshold 65535, few commitments".into(), || S::coord_choose(big, list));
            if let Some(Some(_)) = r {
                self.viol("model:choose", "choose() with threshold 65535 returned a list from a handful of commitments".to_string());
            }
        }
        let r5 = guard_c19(self.out, &eng, "call.frost.choose", || "no commitments".into(), || S::coord_choose(c, &empty_l));
        if let Some(Some(_)) = r5 {
            self.viol("model:choose", "choose() returned a list from zero commitments".to_string());
        }
        if let (Some(ss), Some(pk)) = (shares.first(), pks.first()) {
            let r6 = guard_c19(self.out, &eng, "call.frost.verify_signature_share", || "empty list".into(), || S::spk_verify_share(*pk, *ss, &empty_l, gpk, msg));
            if r6 == Some(true) {
                self.viol("reject:verify_signature_share", "verify_signature_share accepted a share against an empty commitment list".to_string());
            }
            // the same share against the same list but another message: true only if that signer really
            // signed exactly (list, that message) with this share (ground truth), which a corrupted SignReq
            // can make happen
            let other: Vec<u8> = if msg.is_empty() { vec![0u8] } else { Vec::new() };
            let list_enc = S::comm_encode_list(list);
            let se = S::sigshare_encode(*ss);
            let wf = list_wellformed::<S>(&list_enc);
            for p in pks.iter() {
                let pe = S::spk_encode(*p);
                let same_ident = pe[..S::NS] == se[..S::NS];
                let auth = self.authentic.get(&(se[..S::NS].to_vec(), list_enc.clone(), other.clone())).map(|x| x[..] == se[..]).unwrap_or(false);
                let expect = wf && same_ident && auth;
                let r7 = guard_c19(self.out, &eng, "call.frost.verify_signature_share", || "other message".into(), || S::spk_verify_share(*p, *ss, list, gpk, &other));
                if let Some(r7) = r7 {
                    if r7 != expect {
                        self.viol(
                            if expect { "complete:verify_signature_share" } else { "reject:verify_signature_share" },
                            format!("verify_signature_share for another message returned {} but ground truth says {}", r7, expect),
                        );
                    }
                }
            }
        }
    }

    fn fail_attempt(&mut self, s: u32, att: u32) {
        let si = s as usize;
        let cur = matches!(&self.sessions[si].cur, Some(a) if a.att == att);
        if !cur || self.sessions[si].done_at.is_some() {
            return;
        }
        self.out.ev(format_args!("coord s{} a{} failed -> retry", s, att));
        self.out.probe("probe.frost.attempt_failed_and_retried");
        self.sessions[si].cur = None;
        let cap = 14;
        if (!self.healed && self.sessions[si].attempts < cap) || (self.healed && self.sessions[si].attempts_after_heal < 12) {
            // small backoff, then a fresh attempt with fresh commitments
            self.q.after(2 * MS, Ev::ClientRequest(s));
        }
    }

    /// Soundness of an accepted signature: every verifier must agree.
    fn check_signature(&mut self, se: &[u8], sig: S::Sig, msg: &[u8], site: &str) {
        let eng = self.eng.clone();
        let gpk = self.gpk;
        let v1 = guard_c19(self.out, &eng, "call.frost.verify", || crate::util::hex(se), || S::gpk_verify(gpk, sig, msg)).unwrap_or(false);
        let v2 = guard_c19(self.out, &eng, "call.frost.verify_esig", || crate::util::hex(se), || S::gpk_verify_esig(gpk, se, msg)).unwrap_or(false);
        let gpk_enc = self.gpk_enc.clone();
        let v3 = guard_c19(self.out, &eng, "call.frost.independent_verifier", || crate::util::hex(se), || S::indep_verify(&gpk_enc, se, msg)).unwrap_or(false);
        let v4 = guard_c19(self.out, &eng, "call.rfc8032.plain_verify", || crate::util::hex(se), || S::plain_verify(&gpk_enc, se, msg)).unwrap_or(Some(false));
        if v4.is_some() {
            self.out.probe("probe.frost.rfc8032_plain_verifier_consulted");
        }
        if !(v1 && v2 && v3 && v4.unwrap_or(true)) {
            self.viol(
                &format!("sound:signature:{}", site),
                format!(
                    "signature {} on msg {} under group key {}: verify={} verify_esig={} independent_verifier={} rfc8032_plain={:?}",
                    crate::util::hex(se),
                    hex_abbrev(msg),
                    crate::util::hex(&self.gpk_enc),
                    v1,
                    v2,
                    v3,
                    v4
                ),
            );
        }
    }

    fn rely_on_final(&mut self, m: &Msg) {
        let eng = self.eng.clone();
        let clean = m.a == m.orig_a && m.b == m.orig_b;
        let gpk = self.gpk;
        let sd = guard_c19(self.out, &eng, "call.frost.sig_decode", || hex_abbrev(&m.a), || S::sig_decode(&m.a)).flatten();
        if let Some(x) = sd {
            if S::sig_encode(x) != m.a {
                self.viol("roundtrip:signature", format!("decode accepted {} but re-encodes differently", hex_abbrev(&m.a)));
            }
        }
        if m.must_fail_a && sd.is_some() {
            self.viol("reject:sig_decode", format!("signature with an invalid field decoded: {}", crate::util::hex(&m.a)));
        }
        let v = guard_c19(self.out, &eng, "call.frost.verify_esig", || format!("{} / {}", crate::util::hex(&m.a), hex_abbrev(&m.b)), || S::gpk_verify_esig(gpk, &m.a, &m.b));
        let v = match v {
            Some(v) => v,
            None => return,
        };
        let gpk_enc = self.gpk_enc.clone();
        let vi = match guard_c19(self.out, &eng, "call.frost.independent_verifier", || crate::util::hex(&m.a), || S::indep_verify(&gpk_enc, &m.a, &m.b)) {
            Some(x) => x,
            None => return,
        };
        let vp = match guard_c19(self.out, &eng, "call.rfc8032.plain_verify", || crate::util::hex(&m.a), || S::plain_verify(&gpk_enc, &m.a, &m.b)) {
            Some(x) => x,
            None => return,
        };
        self.out.ev(format_args!("rely s{} verify_esig={} clean={}", m.sess, v, clean));
        if clean {
            if !(v && vi && vp.unwrap_or(true)) {
                self.viol("complete:verify_delivered_signature", format!("intact signature refused: lib={} indep={} plain={:?}", v, vi, vp));
            }
        } else {
            self.out.probe("probe.frost.altered_signature_reached_verifier");
            if v || vi || vp.unwrap_or(false) {
                self.viol(
                    "reject:verify_altered_signature",
                    format!(
                        "altered signature or message accepted: lib={} indep={} plain={:?}; sig {} (genuine {}), msg {} (genuine {})",
                        v,
                        vi,
                        vp,
                        crate::util::hex(&m.a),
                        crate::util::hex(&m.orig_a),
                        hex_abbrev(&m.b),
                        hex_abbrev(&m.orig_b)
                    ),
                );
            }
        }
    }

    // ------------------------------------------------------------ main loop

    fn deliver(&mut self, m: Msg) {
        self.out.ev(format_args!("deliver {:?} {}->{} s{} a{} a={} b={}", m.kind, m.src, m.dst, m.sess, m.att, hex_abbrev(&m.a), hex_abbrev(&m.b)));
        if m.dst >= FIRST_SIGNER {
            let si = m.dst - FIRST_SIGNER;
            if si >= self.signers.len() || !self.signers[si].up {
                self.out.probe("probe.frost.message_to_crashed_node_lost");
                return;
            }
            match m.kind {
                Kind::Deal => self.signer_on_deal(si, &m),
                Kind::CommitReq => self.signer_on_commit_req(si, &m),
                Kind::SignReq => self.signer_on_sign_req(si, &m),
                _ => {}
            }
            return;
        }
        match (m.dst, m.kind) {
            (DEALER, Kind::DealAck) => {
                if let Some(i) = self.signers.iter().position(|s| s.ident_wire == m.a) {
                    self.acked[i] = true;
                }
            }
            (DEALER, Kind::NeedShare) => {
                if let Some(i) = self.signers.iter().position(|s| s.ident_wire == m.a) {
                    let was = self.acked[i];
                    self.acked[i] = false;
                    if was && self.acked.iter().filter(|x| !**x).count() == 1 {
                        // restart the retry loop if it had stopped
                        self.q.after(MS, Ev::DealRetry);
                    }
                }
            }
            (COORD, Kind::Commit) => self.coord_on_commit(&m),
            (COORD, Kind::Share) => self.coord_on_share(&m),
            (COORD, Kind::Nack) => {
                let s = m.sess as usize;
                if s < self.sessions.len() {
                    let cur = matches!(&self.sessions[s].cur, Some(a) if a.att == m.att && a.signing);
                    if cur {
                        self.fail_attempt(m.sess, m.att);
                    }
                }
            }
            (RELY, Kind::Final) => self.rely_on_final(&m),
            _ => {}
        }
    }

    fn run_loop(&mut self, max_time: u64, max_steps: u64) {
        while let Some((_seq, ev)) = self.q.pop() {
            self.steps += 1;
            self.out.sim_time_us = self.q.now;
            if self.q.now > max_time || self.steps > max_steps {
                break;
            }
            match ev {
                Ev::Deliver(m) => self.deliver(m),
                Ev::DealRetry => self.deal_round(),
                Ev::ClientRequest(s) => {
                    let sess = &mut self.sessions[s as usize];
                    if sess.done_at.is_none() && sess.cur.is_none() {
                        if !sess.started {
                            sess.started = true;
                            sess.requested_at = self.q.now;
                        }
                        self.start_attempt(s);
                    }
                }
                Ev::CollectWindow(s, att) => {
                    let cur = matches!(&self.sessions[s as usize].cur, Some(a) if a.att == att && a.collecting);
                    if cur {
                        self.coord_choose(s);
                    }
                }
                Ev::AttemptTimeout(s, att) => {
                    let cur = matches!(&self.sessions[s as usize].cur, Some(a) if a.att == att);
                    if cur && self.sessions[s as usize].done_at.is_none() {
                        // last chance: assemble with what we have (exercises the 'missing share' path)
                        let signing = self.sessions[s as usize].cur.as_ref().unwrap().signing;
                        if signing && self.t.chance(1, 2) {
                            self.coord_assemble(s);
                        }
                        let still = matches!(&self.sessions[s as usize].cur, Some(a) if a.att == att);
                        if still && self.sessions[s as usize].done_at.is_none() {
                            self.out.probe("probe.frost.attempt_timed_out");
                            self.fail_attempt(s, att);
                        }
                    }
                }
                Ev::Crash(node) => self.crash(node),
                Ev::Restart(node) => self.restart(node),
                Ev::Heal => {
                    self.healed = true;
                    self.out.ev(format_args!("HEAL: network perfect, all nodes up from now on"));
                    for i in 0..self.signers.len() {
                        if !self.signers[i].up {
                            self.q.after(MS, Ev::Restart(FIRST_SIGNER + i));
                        } else if self.signers[i].share.is_none() {
                            let id = self.signers[i].ident;
                            self.send(Kind::NeedShare, FIRST_SIGNER + i, DEALER, 0, 0, ident_wire::<S>(id), Vec::new());
                        }
                    }
                    // sessions that gave up while faults were flowing are resumed
                    for s in 0..self.sessions.len() {
                        if self.sessions[s].done_at.is_none() && self.sessions[s].cur.is_none() && self.sessions[s].started {
                            self.q.after(2 * MS, Ev::ClientRequest(s as u32));
                        }
                    }
                    self.q.after(MS, Ev::DealRetry);
                }
            }
            // stop early when everything is finished and the network is healed
            if self.healed && self.sessions.iter().all(|s| s.done_at.is_some()) && self.q.len() == 0 {
                break;
            }
        }
    }
}

fn kind_name(k: Kind) -> &'static str {
    match k {
        Kind::Deal => "deal",
        Kind::DealAck => "dealack",
        Kind::NeedShare => "needshare",
        Kind::CommitReq => "commitreq",
        Kind::Commit => "commit",
        Kind::SignReq => "signreq",
        Kind::Nack => "nack",
        Kind::Share => "share",
        Kind::Final => "final",
    }
}

/// A whole signing session with a threshold far above what the networked world can afford (t = n = K, every
/// signer takes part), driven directly through the API with only the arrival order as a schedule decision:
/// trusted_split, verify_split, (derive_group_info), commit, choose, sign, verify_signature_share,
/// assemble_signature, verify - the insertion sort of `choose` over K entries, Lagrange coefficients over K
/// identifiers, powers k^(K-1) in the share evaluation.
fn big_threshold_session<S: Suite>(t: &mut Tape, rng: &mut SimRng, out: &mut RunOut, k: usize, derive: bool) {
    let cls = |w: &str| format!("frost/{}/complete:big_threshold:{}", S::NAME, w);
    out.probe("probe.frost.big_threshold_direct_session");
    let gsk = S::gsk_generate(rng);
    let gpk = S::gsk_public(gsk);
    let gpk_enc = S::gpk_encode(gpk);
    let (shares, vss) = match crate::core::guard_raw(|| S::split(rng, gsk, k, k)) {
        Ok(x) => x,
        Err(m) => {
            out.violate("C15", cls("trusted_split"), format!("trusted_split(t=n={}) panicked: {}", k, m));
            return;
        }
    };
    for _ in 0..3 {
        let i = t.usize(k);
        if !S::share_verify_split(shares[i], &vss) {
            out.violate("C15", cls("verify_split"), format!("share {} of {} fails verify_split (t=n={})", i + 1, k, k));
        }
    }
    let pks: Vec<S::Spk> = if derive {
        let (p, g2) = S::derive_group_info(k, vss.clone());
        if S::gpk_encode(g2) != gpk_enc {
            out.violate("C15", cls("derive_group_info"), "derived group key differs".into());
        }
        for i in [0usize, k / 2, k - 1] {
            if S::spk_encode(p[i]) != S::spk_encode(S::share_public(shares[i])) {
                out.violate("C15", cls("derive_group_info"), format!("derived key of signer {} differs from its share's (t=n={})", i + 1, k));
            }
        }
        p
    } else {
        shares.iter().map(|s| S::share_public(*s)).collect()
    };
    // round 1, commitments arrive in a tape-chosen order (rotation + one swap per draw keeps the tape short)
    let mut nc: Vec<(S::Nonce, S::Comm)> = shares.iter().map(|s| S::share_commit(*s, rng)).collect();
    let mut order: Vec<usize> = (0..k).collect();
    order.rotate_left(t.usize(k));
    for _ in 0..8 {
        let (a, b) = (t.usize(k), t.usize(k));
        order.swap(a, b);
    }
    if t.chance(1, 2) {
        order.reverse();
    }
    let arrived: Vec<S::Comm> = order.iter().map(|&i| nc[i].1).collect();
    let coord = match S::coord_new(k, gpk) {
        Some(c) => c,
        None => {
            out.violate("C15", cls("coordinator_new"), format!("Coordinator::new({}) refused", k));
            return;
        }
    };
    let list = match S::coord_choose(coord, &arrived) {
        Some(l) if l.len() == k => l,
        _ => {
            out.violate("C15", cls("choose"), format!("choose() did not return {} commitments out of {} distinct ones", k, k));
            return;
        }
    };
    let le = S::comm_encode_list(&list);
    if !list_wellformed::<S>(&le) {
        out.violate("C15", cls("choose"), "choose() returned a list that is not strictly ascending".into());
        return;
    }
    let msg = rng.bytes(t.usize(200));
    let mut sig_shares = Vec::with_capacity(k);
    for i in 0..k {
        let (n_i, c_i) = nc[i];
        match S::share_sign(shares[i], n_i, c_i, &msg, &list) {
            Some(s) => sig_shares.push(s),
            None => {
                out.violate("C15", cls("sign"), format!("signer {} of {} refused to sign a well-formed list containing its commitment", i + 1, k));
                return;
            }
        }
    }
    nc.clear();
    for _ in 0..4 {
        let i = t.usize(k);
        if !S::spk_verify_share(pks[i], sig_shares[i], &list, gpk, &msg) {
            out.violate("C15", cls("verify_signature_share"), format!("genuine share of signer {} of {} refused", i + 1, k));
        }
    }
    // shares handed over in arrival order
    let shuffled: Vec<S::SigShare> = order.iter().map(|&i| sig_shares[i]).collect();
    match S::coord_assemble(coord, &shuffled, &list, &pks, &msg) {
        Some(sig) => {
            let se = S::sig_encode(sig);
            let ok = S::gpk_verify(gpk, sig, &msg) && S::gpk_verify_esig(gpk, &se, &msg) && S::indep_verify(&gpk_enc, &se, &msg) && S::plain_verify(&gpk_enc, &se, &msg).unwrap_or(true);
            if !ok {
                out.violate("C15", format!("frost/{}/sound:signature:big_threshold", S::NAME), format!("signature of {} signers does not verify: {}", k, crate::util::hex(&se)));
            }
            out.ops_completed += 1;
        }
        None => out.violate("C15", cls("assemble_signature"), format!("assemble_signature returned None for an honest session of {} signers", k)),
    }
}

pub fn run<S: Suite>(t: &mut Tape, cfg: &Cfg, out: &mut RunOut) {
    let eng = format!("frost/{}", S::NAME);
    let mut rng = SimRng::new(t.seed64());
    if cfg.many && t.chance(1, if cfg.tier == Tier::Thorough { 6 } else { 12 }) {
        let k = if cfg.tier == Tier::Thorough { [200usize, 256, 257, 300, 400][t.usize(5)] } else { 70 + t.usize(70) };
        // (Ed448 costs about three times as much per group operation)
        let k = if S::NAME == "ed448" { k.min(257) } else { k };
        let derive = k <= 260 && S::NAME != "ed448";
        out.summary = format!("big-threshold direct session, t = n = {}", k);
        big_threshold_session::<S>(t, &mut rng, out, k, derive);
        out.force_nontrivial = true;
        return;
    }
    // ---- world size
    // (quick tier: about a dozen runs per check at the documented maximum; they cost seconds each)
    let huge = cfg.big_n && t.chance(1, if cfg.tier == Tier::Thorough { 60 } else { 40 });
    let (tmin, n) = if huge {
        // the documented maximum group size (and just below it)
        let n = [65535usize, 65535, 65534, 40000][t.usize(4)];
        (2 + t.usize(2), n)
    } else if cfg.big_n {
        // identifiers cross a byte boundary
        let n = 255 + t.usize(if cfg.tier == Tier::Thorough { 1800 } else { 50 });
        let tm = 2 + t.usize(if cfg.tier == Tier::Thorough { 10 } else { 4 });
        (tm, n)
    } else {
        let tmax = if cfg.tier == Tier::Thorough { 24 } else { 5 };
        let tm = if cfg.tier == Tier::Thorough && t.chance(1, 4) { 2 + t.usize(tmax - 1) } else { 2 + t.usize(6.min(tmax - 1)) };
        let tm = if cfg.tier == Tier::Thorough { tm } else { tm.min(5) };
        let n = tm + t.usize(if cfg.tier == Tier::Thorough { 10 } else { 6 });
        (tm, n)
    };
    if huge {
        out.probe("probe.frost.group_size_at_documented_maximum");
    }
    // active signers: at most 10 nodes, with identifiers spread over [1, n]
    let max_active = if cfg.tier == Tier::Thorough { 30 } else { 8 };
    let nact = n.min(tmin + t.usize((max_active - tmin).max(0) + 1)).max(tmin);
    let mut idents: BTreeSet<u64> = BTreeSet::new();
    if n <= nact {
        for i in 1..=n as u64 {
            idents.insert(i);
        }
    } else {
        // boundary identifiers first
        for c in [n as u64, 256, 255, 257, 1, 65535] {
            if c >= 1 && c <= n as u64 && idents.len() < nact && t.chance(2, 3) {
                idents.insert(c);
            }
        }
        let mut guard = 0;
        while idents.len() < nact && guard < 10_000 {
            idents.insert(1 + t.choose(n as u64));
            guard += 1;
        }
        let mut i = 1;
        while idents.len() < nact {
            idents.insert(i);
            i += 1;
        }
    }
    let mut idents: Vec<u64> = idents.into_iter().collect();
    // ---- many-signers slice: overrides the sizes above
    let (tmin, n) = if cfg.many {
        let nact = 10 + t.usize(if cfg.tier == Tier::Thorough { 55 } else { 15 });
        let nlarge = t.usize(4).min(nact - 2);
        let m = nact - nlarge;
        let mut set: BTreeSet<u64> = (1..=m as u64).collect();
        let pool = [300u64, 256, 257, 255, 1000, 2000, 65535];
        let top = if cfg.tier == Tier::Thorough { 2054 } else { 300 };
        let mut g = 0;
        while set.len() < nact && g < 100 {
            let c = pool[t.usize(pool.len())].min(top);
            if c > m as u64 {
                set.insert(c);
            }
            g += 1;
        }
        let mut extra = m as u64 + 1;
        while set.len() < nact {
            set.insert(extra);
            extra += 1;
        }
        idents = set.into_iter().collect();
        let n2 = (*idents.last().unwrap() as usize).max(nact + t.usize(4));
        // the threshold is anywhere between 2 and all of them, biased to "most of them"
        let tm = match t.usize(3) {
            0 => 2 + t.usize(nact - 1),
            _ => nact - t.usize(nact / 2),
        }
        .max(2)
        .min(nact);
        out.probe("probe.frost.many_signers_world");
        (tm, n2)
    } else {
        (tmin, n)
    };

    // ---- fault configuration (swarm style)
    let heal_at = (80 + t.choose(400)) * MS;
    let faulty = t.chance(5, 6);
    let net = if faulty { NetCfg::draw(t, heal_at) } else { NetCfg { heal_at: 0, ..NetCfg::none() } };
    let crash_rate = if faulty { [0u64, 0, 30, 100][t.usize(4)] } else { 0 };
    let disk_fault_rate = if faulty { [0u64, 0, 100, 400][t.usize(4)] } else { 0 };
    let rng_repeat_rate = if faulty { [0u64, 0, 50, 300][t.usize(4)] } else { 0 };
    let sloppy_rate = if faulty { [0u64, 0, 100, 400][t.usize(4)] } else { 0 };

    // ---- dealer (trusted, local): generate, split, publish
    let gsk = S::gsk_generate(&mut rng);
    let gpk = S::gsk_public(gsk);
    let gpk_enc = S::gpk_encode(gpk);
    out.ev(format_args!("dealer: suite {} t={} n={} gpk={}", S::NAME, tmin, n, crate::util::hex(&gpk_enc)));
    // group key round trips
    match S::gpk_decode(&gpk_enc) {
        Some(g2) if S::gpk_encode(g2) == gpk_enc => {}
        _ => out.violate("C15", format!("frost/{}/roundtrip:group_public_key", S::NAME), crate::util::hex(&gpk_enc)),
    }
    let gske = S::gsk_encode(gsk);
    match S::gsk_decode(&gske) {
        Some(g2) if S::gsk_encode(g2) == gske && S::gpk_encode(S::gsk_public(g2)) == gpk_enc => {}
        _ => out.violate("C15", format!("frost/{}/roundtrip:group_private_key", S::NAME), "GroupPrivateKey encode/decode".into()),
    }
    // 2 <= t <= n <= 65535 is the documented domain: a panic here is a completeness failure of the dealer's step
    let (shares, vss) = match crate::core::guard_raw(|| S::split(&mut rng, gsk, tmin, n)) {
        Ok(x) => x,
        Err(m) => {
            out.violate("C15", format!("frost/{}/complete:trusted_split", S::NAME), format!("trusted_split(t={}, n={}) panicked: {}", tmin, n, m));
            return;
        }
    };
    let vss_enc = S::vss_encode_list(&vss);
    if shares.len() != n || vss.len() != tmin {
        out.violate("C15", format!("frost/{}/complete:trusted_split", S::NAME), format!("{} shares, {} vss elements for t={} n={}", shares.len(), vss.len(), tmin, n));
        return;
    }
    let mut share_encs = BTreeMap::new();
    for &id in idents.iter() {
        share_encs.insert(id, S::share_encode(shares[(id - 1) as usize]));
    }
    // published group information, derived by the coordinator from the VSS commitment
    let vss2 = match S::vss_decode_list(&vss_enc) {
        Some(v) => v,
        None => {
            out.violate("C15", format!("frost/{}/complete:vss_decode_list", S::NAME), "dealer's own VSS list refused".into());
            return;
        }
    };
    // (derive_group_info recomputes all n public keys: at n = 65535 that is tens of seconds for Ed448)
    let skip_derive = (cfg.many && n > 1200) || (n > 8192 && S::NAME == "ed448");
    let (all_pks, gpk2) = if skip_derive {
        // (as the sample program does: each signer's public key taken from its share)
        (shares.iter().map(|sh| S::share_public(*sh)).collect::<Vec<_>>(), gpk)
    } else {
        S::derive_group_info(n, vss2)
    };
    if S::gpk_encode(gpk2) != gpk_enc {
        out.violate("C15", format!("frost/{}/complete:derive_group_info", S::NAME), "derived group key differs from the dealer's".into());
    }
    let mut spk_encs = BTreeMap::new();
    let mut pks = Vec::new();
    for &id in idents.iter() {
        let derived = S::spk_encode(all_pks[(id - 1) as usize]);
        let direct = S::spk_encode(S::share_public(shares[(id - 1) as usize]));
        if derived != direct {
            out.violate(
                "C15",
                format!("frost/{}/complete:derive_group_info", S::NAME),
                format!("derived public key of signer {} is {} but its share gives {}", id, crate::util::hex(&derived), crate::util::hex(&direct)),
            );
        }
        match S::spk_decode(&derived) {
            Some(p2) if S::spk_encode(p2) == derived => {}
            _ => out.violate("C15", format!("frost/{}/roundtrip:signer_public_key", S::NAME), crate::util::hex(&derived)),
        }
        spk_encs.insert(id, direct);
        pks.push(all_pks[(id - 1) as usize]);
    }
    // every share (not only the active ones) passes verify_split: sample a few inactive ones too
    for _ in 0..3 {
        let i = t.usize(n);
        if !S::share_verify_split(shares[i], &vss) {
            out.violate("C15", format!("frost/{}/complete:verify_split", S::NAME), format!("share {} of {} fails verify_split (t={})", i + 1, n, tmin));
        }
    }
    // a malicious dealer: a commitment list of individually valid elements whose polynomial vanishes at the
    // victim's identifier (the evaluation every verifier performs is then the neutral element). The victim's
    // genuine share can never match it, and nothing may panic. (derive_group_info is documented to assume a
    // commitment that "has been duly verified", so it is not given this list.)
    if t.chance(1, 6) {
        let i = t.usize(n);
        let enc = S::vss_vanishing_at(&mut rng, if t.chance(1, 2) { tmin } else { 2 + t.usize(4) }, (i + 1) as u64);
        out.probe("probe.frost.dealer_commitment_vanishing_at_victim");
        let eng = format!("frost/{}", S::NAME);
        if let Some(Some(bad)) = guard_c19(out, &eng, "call.frost.vss_decode_list", || crate::util::hex(&enc), || S::vss_decode_list(&enc)) {
            // lists of no or one element (a dealer can send anything; decode_list refuses fewer than two, but
            // verify_split is public and documents no length requirement): must be refused, not panic
            for l in 0..2usize {
                let short: Vec<S::Vss> = bad.iter().cloned().take(l).collect();
                let sh0 = shares[i];
                let r = guard_c19(out, &eng, "call.frost.verify_split", || format!("{}-element commitment list", l), || S::share_verify_split(sh0, &short));
                if r == Some(true) {
                    out.violate("C15", format!("frost/{}/reject:verify_split:short-commitment", S::NAME), format!("verify_split accepted a {}-element commitment list", l));
                }
            }
            // the share package comes from the same dealer: once as dealt (its group-key field then differs from
            // the list's constant term), once with the group-key field set to that constant term
            let mut pkg = S::share_encode(shares[i]);
            let l = pkg.len();
            pkg[l - S::NE..].copy_from_slice(&enc[..S::NE]);
            let consistent = guard_c19(out, &eng, "call.frost.share_decode", || crate::util::hex(&pkg), || S::share_decode(&pkg)).flatten();
            for sh in [Some(shares[i]), consistent].into_iter().flatten() {
                let r = guard_c19(out, &eng, "call.frost.verify_split", || format!("victim {} list {}", i + 1, crate::util::hex(&enc)), || S::share_verify_split(sh, &bad));
                out.ev(format_args!("malicious dealer: vanishing commitment for signer {} -> verify_split {:?}", i + 1, r));
                if r == Some(true) {
                    out.violate("C15", format!("frost/{}/reject:verify_split:vanishing-commitment", S::NAME), format!("a share with a non-zero key passed verify_split against a commitment that evaluates to the neutral at its identifier: {}", crate::util::hex(&enc)));
                }
            }
        }
    }
    // single-signer path on the group key: seeded variant with seeds of every length class; deterministic,
    // so signing twice must give the same bytes, and a decoded copy of the key must sign identically
    {
        let sl = [0usize, 1, 16, 31, 32, 33, 63, 64, 65, 128, 200][t.usize(11)];
        let seed = rng.bytes(sl);
        let m0 = { let l = [0usize, 1, 55, 64, 111, 128, 300][t.usize(7)]; rng.bytes(l) };
        let s1 = S::sig_encode(S::gsk_sign_seeded(gsk, &seed, &m0));
        let s2 = S::sig_encode(S::gsk_sign_seeded(gsk, &seed, &m0));
        let s3 = match S::gsk_decode(&S::gsk_encode(gsk)) {
            Some(g2) => S::sig_encode(S::gsk_sign_seeded(g2, &seed, &m0)),
            None => Vec::new(),
        };
        let ok = S::gpk_verify_esig(gpk, &s1, &m0) && S::indep_verify(&gpk_enc, &s1, &m0) && S::plain_verify(&gpk_enc, &s1, &m0).unwrap_or(true);
        out.ev(format_args!("dealer: single-signer seeded signature (seed {}B, msg {}B) {}", sl, m0.len(), crate::util::hex(&s1)));
        if !ok || s1 != s2 || s1 != s3 {
            out.violate(
                "C15",
                format!("frost/{}/sound:signature:single_signer_seeded", S::NAME),
                format!("sign_seeded(seed {}B, msg {}B): verifies={} repeatable={} same-after-key-roundtrip={} sig {}", sl, m0.len(), ok, s1 == s2, s1 == s3, crate::util::hex(&s1)),
            );
        }
    }
    // single-signer path on the group key
    {
        let m1 = rng.bytes(t.usize(40));
        let sig = S::gsk_sign(gsk, &mut rng, &m1);
        let se = S::sig_encode(sig);
        let ok = S::gpk_verify(gpk, sig, &m1) && S::gpk_verify_esig(gpk, &se, &m1) && S::indep_verify(&gpk_enc, &se, &m1) && S::plain_verify(&gpk_enc, &se, &m1).unwrap_or(true);
        if !ok {
            out.violate("C15", format!("frost/{}/sound:signature:single_signer", S::NAME), format!("single-signer signature {} on {} does not verify", crate::util::hex(&se), hex_abbrev(&m1)));
        }
    }

    // pools of other valid values (a second, unrelated group supplies "another valid point / scalar")
    let mut pool_points = vec![gpk_enc.clone()];
    let mut pool_scalars = Vec::new();
    for _ in 0..3 {
        let g = S::gsk_generate(&mut rng);
        pool_points.push(S::gpk_encode(S::gsk_public(g)));
        pool_scalars.push(S::gsk_encode(g));
    }
    for e in spk_encs.values().take(4) {
        pool_points.push(e[S::NS..].to_vec());
    }
    let pool_idents: Vec<Vec<u8>> = idents.iter().map(|&i| ident_wire::<S>(i)).chain([ident_wire::<S>(n as u64 + 1), ident_wire::<S>(65536), ident_wire::<S>(u64::MAX)]).collect();

    // ---- nodes
    let mut signers = Vec::new();
    for &id in idents.iter() {
        signers.push(Signer::<S> {
            ident: id,
            ident_wire: ident_wire::<S>(id),
            up: true,
            share: None,
            share_enc: Vec::new(),
            nonces: BTreeMap::new(),
            disk: Disk::new(),
            persist_nonces: t.chance(1, 3),
            sloppy_decode: faulty && t.chance(1, 4),
            rng: SimRng::new(rng.u64()),
            restarts: 0,
        });
    }
    let nsess = 1 + t.usize(if cfg.tier == Tier::Thorough { 6 } else { 4 });
    let mut sessions = Vec::new();
    for _ in 0..nsess {
        let k = tmin + t.usize(signers.len() - tmin + 1);
        let mlen = match t.usize(4) {
            0 => 0,
            1 => t.usize(8),
            2 => t.usize(200),
            _ => t.usize(2048),
        };
        sessions.push(Session::<S> { msg: rng.bytes(mlen), k, requested_at: 0, started: false, done_at: None, attempts: 0, attempts_after_heal: 0, cur: None, final_sig: Vec::new() });
    }
    out.summary = format!(
        "FROST {} t={} n={} active idents {:?} sessions {} (k={:?}) faults: net drop/dup/reorder/corrupt/stale={}/{}/{}/{}/{} per 1000, crash {} disk {} rng_repeat {} sloppy {} heal_at {}ms",
        S::NAME,
        tmin,
        n,
        idents,
        nsess,
        sessions.iter().map(|s| s.k).collect::<Vec<_>>(),
        net.drop,
        net.dup,
        net.reorder,
        net.corrupt,
        net.stale,
        crash_rate,
        disk_fault_rate,
        rng_repeat_rate,
        sloppy_rate,
        heal_at / MS
    );
    let nsig = signers.len();
    let mut w = W::<S> {
        t,
        out,
        q: Queue::new(),
        net,
        rng,
        eng,
        tmin,
        n,
        gpk,
        gpk_enc,
        vss_enc,
        share_encs,
        spk_encs,
        pks,
        gt_comms: BTreeMap::new(),
        authentic: BTreeMap::new(),
        pool_points,
        pool_scalars,
        pool_idents,
        bad_points: S::bad_points(),
        order_m1: S::order_minus_one_wire(),
        history: BTreeMap::new(),
        signers,
        acked: vec![false; nsig],
        sessions,
        healed: !faulty,
        crash_rate,
        disk_fault_rate,
        rng_repeat_rate,
        sloppy_rate,
        steps: 0,
    };
    let _ = w.n;
    // schedule
    w.q.at(0, Ev::DealRetry);
    for s in 0..nsess {
        let at = (5 + w.t.choose(250)) * MS;
        w.q.at(at, Ev::ClientRequest(s as u32));
    }
    if faulty {
        w.q.at(heal_at, Ev::Heal);
        // a few crashes at arbitrary instants too
        if crash_rate > 0 {
            let nc = w.t.usize(3);
            for _ in 0..nc {
                let node = FIRST_SIGNER + w.t.usize(nsig);
                let at = w.t.choose(heal_at);
                w.q.at(at, Ev::Crash(node));
                w.out.fault("fault.crash.signer_random");
            }
        }
    }
    let end = heal_at.max(300 * MS) + LIVENESS_BOUND + 200 * MS;
    w.run_loop(end, 200_000);

    // ---- bounded liveness: once faults stop, every request completes
    let heal = if faulty { heal_at } else { 0 };
    for (i, s) in w.sessions.iter().enumerate() {
        let deadline = heal.max(s.requested_at) + LIVENESS_BOUND;
        match s.done_at {
            Some(d) if d <= deadline => {}
            Some(d) => {
                let det = format!("session {} completed at {}us, after the bound {}us (heal at {}us)", i, d, deadline, heal);
                w.out.violate("C15", format!("frost/{}/liveness:late", S::NAME), det);
            }
            None => {
                let det = format!(
                    "session {} (k={}, requested at {}us) never produced a signature although the network healed at {}us; {} attempts",
                    i, s.k, s.requested_at, heal, s.attempts
                );
                w.out.violate("C15", format!("frost/{}/liveness:never", S::NAME), det);
            }
        }
    }
    if w.signers.iter().any(|s| s.restarts > 0) && w.sessions.iter().any(|s| s.done_at.is_some()) {
        w.out.probe("probe.frost.session_completed_in_run_with_restart");
    }
}
