//! Sim D — the exchange world (property C19; feeds C18).
//!
//! Pairs of parties publish identity keys, exchange ephemeral keys and send
//! signed messages through a faulty, mangling network that also misdelivers
//! bytes of one protocol to the receiver of another. The receiver calls the
//! library's decoders / verifiers / key-agreement functions on whatever
//! arrives. The only oracles are the universal invariant (no panic, no hang),
//! the status-word check, and the transcript used by the cross-build replay.
//! No accept/reject correctness is claimed here (that would be C07-C09,
//! C13, C14 by the back door); accept/reject counts are recorded only as
//! reach probes.

use crate::core::{guard_c19, RunOut};
use crate::rng::SimRng;
use crate::runner::Tier;
use crate::tape::Tape;
use crate::util::{hex, hex_abbrev};

const ENG: &str = "exchange";

const RAW_KINDS: [&str; 11] = [
    "fault.rawmangle.none",
    "fault.rawmangle.bitflip",
    "fault.rawmangle.multi_bitflip",
    "fault.rawmangle.truncate",
    "fault.rawmangle.extend",
    "fault.rawmangle.zero",
    "fault.rawmangle.ones",
    "fault.rawmangle.empty",
    "fault.rawmangle.random_same_length",
    "fault.rawmangle.cross_protocol_misdelivery",
    "fault.rawmangle.high_bits_set",
];


// ---- boundary-value substitution for structured fields (scalars, coordinates) ----

fn le_add(v: &[u8], add: u64) -> Vec<u8> {
    let mut r = v.to_vec();
    let mut c = add as u128;
    for b in r.iter_mut() {
        let s = *b as u128 + (c & 0xFF);
        *b = s as u8;
        c = (c >> 8) + (s >> 8);
    }
    r
}

fn le_sub(v: &[u8], sub: u64) -> Vec<u8> {
    let mut r = v.to_vec();
    let mut borrow = sub as i128;
    for b in r.iter_mut() {
        let d = *b as i128 - (borrow & 0xFF);
        borrow >>= 8;
        if d < 0 {
            *b = (d + 256) as u8;
            borrow += 1;
        } else {
            *b = d as u8;
        }
    }
    r
}

fn fit(v: &[u8], len: usize) -> Vec<u8> {
    let mut r = v.to_vec();
    r.resize(len, 0);
    r
}

/// Special encodings for a little-endian "coordinate plus sign bit in the top bit of the last byte" point
/// format (Edwards curves, ristretto/decaf, jq255, GLS254 all have this shape): coordinate in
/// {0, 1, 2, p-2, p-1, p, p+1, all ones} with the top bit clear and set, plus the given extra list and the
/// top-bit twins of its members. Which of them decode is the library's business; the point is that every
/// one of them is *delivered* to the decoders, whose status words are then checked.
fn coord_sign_specials(field_m1: &[u8], enc_len: usize, extra: &[Vec<u8>]) -> Vec<Vec<u8>> {
    let m1 = fit(field_m1, enc_len);
    let mut base: Vec<Vec<u8>> = vec![
        vec![0u8; enc_len],
        fit(&[1], enc_len),
        fit(&[2], enc_len),
        le_sub(&m1, 1),
        m1.clone(),
        le_add(&m1, 1),
        le_add(&m1, 2),
        {
            let mut v = vec![0xFFu8; enc_len];
            v[enc_len - 1] = 0x7F;
            v
        },
    ];
    if enc_len > field_m1.len() {
        // formats with a whole extra byte for the sign (Ed448): all ones in the coordinate bytes only
        let mut v = vec![0xFFu8; enc_len];
        v[enc_len - 1] = 0;
        base.push(v);
    }
    base.extend(extra.iter().filter(|x| x.len() == enc_len).cloned());
    let mut r = Vec::new();
    for b in base {
        let mut t = b.clone();
        t[enc_len - 1] ^= 0x80;
        r.push(b);
        r.push(t);
    }
    r.sort();
    r.dedup();
    r
}

/// Special SEC1 encodings: the suite's refused list, the one-byte infinity, and for each tag in
/// {00, 02, 03, 04, 05, 06, 07} x in {0, 1, p-1, p, p+1, all ones} (65-byte forms get y = 0 / copied x).
fn sec1_specials(field_m1_le: &[u8], extra: &[Vec<u8>]) -> Vec<Vec<u8>> {
    let be = |v: Vec<u8>| { let mut v = v; v.reverse(); v };
    let xs: Vec<Vec<u8>> = vec![
        vec![0u8; 32], be(fit(&[1], 32)), be(fit(field_m1_le, 32)), be(le_add(&fit(field_m1_le, 32), 1)),
        be(le_add(&fit(field_m1_le, 32), 2)), vec![0xFFu8; 32],
    ];
    let mut r: Vec<Vec<u8>> = extra.to_vec();
    r.push(vec![0u8]);
    for tag in [0u8, 2, 3, 4, 5, 6, 7] {
        for x in xs.iter() {
            let mut c = vec![tag];
            c.extend_from_slice(x);
            r.push(c.clone());
            let mut u = c.clone();
            u.extend_from_slice(&vec![0u8; 32]);
            r.push(u);
            let mut u = c;
            u.extend_from_slice(x);
            r.push(u);
        }
    }
    r.sort();
    r.dedup();
    r
}

/// Moduli of one scheme, little-endian, as (modulus - 1), taken from the library's own types.
struct Bounds {
    order_m1: Vec<u8>,
    field_m1: Vec<u8>,
}

/// A boundary value for a `len`-byte integer field, in wire byte order.
fn boundary(t: &mut Tape, len: usize, be: bool, b: &Bounds) -> Vec<u8> {
    let k = t.choose(24);
    let base = if t.chance(2, 3) { &b.order_m1 } else { &b.field_m1 };
    let m1 = fit(base, len);
    let mut v = match t.usize(10) {
        0 => vec![0u8; len],
        1 => fit(&[1], len),
        2 => m1.clone(),                    // modulus - 1
        3 => le_add(&m1, 1),                // modulus
        4 => le_add(&m1, 2 + k),            // modulus + 1 + k
        5 => le_sub(&m1, 1 + k),            // modulus - 2 - k
        6 => vec![0xFFu8; len],
        7 => {
            let mut v = vec![0u8; len];
            if len > 0 {
                v[len - 1] = 0x80;
            }
            v
        }
        8 => {
            // 2 * modulus + k (wraps if it does not fit)
            let m = le_add(&m1, 1);
            let mut r = vec![0u8; len];
            let mut c = 0u16;
            for i in 0..len {
                let s = (m[i] as u16) * 2 + c;
                r[i] = s as u8;
                c = s >> 8;
            }
            le_add(&r, k)
        }
        _ => {
            let mut v = vec![0xFFu8; len];
            if len > 0 {
                v[len - 1] = 0x7F;
            }
            le_sub(&v, k)
        }
    };
    if be {
        v.reverse();
    }
    v
}

macro_rules! bounds_of {
    ($scalar:ty, $field:ty) => {
        Bounds {
            order_m1: (<$scalar>::ZERO - <$scalar>::ONE).encode().to_vec(),
            field_m1: (<$field>::ZERO - <$field>::ONE).encode().to_vec(),
        }
    };
}

struct Net<'a> {
    t: &'a mut Tape,
    rng: SimRng,
    /// Bytes seen in earlier exchanges of any protocol.
    junkyard: Vec<Vec<u8>>,
    rate: u64,
}

impl<'a> Net<'a> {
    /// Deliver one field: intact or mangled.
    fn field(&mut self, out: &mut RunOut, b: &[u8]) -> Vec<u8> {
        self.junkyard.push(b.to_vec());
        if self.junkyard.len() > 48 {
            self.junkyard.remove(0);
        }
        if self.rate == 0 || !self.t.chance(self.rate, 1000) {
            return b.to_vec();
        }
        let kind = 1 + self.t.weighted(&[6, 2, 3, 3, 1, 1, 1, 2, 3, 2]);
        let mut v = b.to_vec();
        match kind {
            1 => {
                if !v.is_empty() {
                    let i = self.t.usize(v.len());
                    v[i] ^= 1 << self.t.usize(8);
                }
            }
            2 => {
                if !v.is_empty() {
                    for _ in 0..2 + self.t.usize(6) {
                        let i = self.t.usize(v.len());
                        v[i] ^= 1 << self.t.usize(8);
                    }
                }
            }
            3 => {
                if !v.is_empty() {
                    let cut = if self.t.chance(1, 2) { 1 } else { 1 + self.t.usize(v.len()) };
                    let l = v.len();
                    v.truncate(l - cut.min(l));
                }
            }
            4 => {
                let add = match self.t.usize(3) {
                    0 => 1,
                    1 => 1 + self.t.usize(64),
                    _ => 1 + self.t.usize(70_000),
                };
                let e = self.rng.bytes(add);
                v.extend_from_slice(&e);
            }
            5 => v.iter_mut().for_each(|x| *x = 0),
            6 => v.iter_mut().for_each(|x| *x = 0xFF),
            7 => v.clear(),
            8 => v = self.rng.bytes(b.len()),
            9 => {
                if !self.junkyard.is_empty() {
                    let i = self.t.usize(self.junkyard.len());
                    v = self.junkyard[i].clone();
                }
            }
            _ => {
                if !v.is_empty() {
                    let l = v.len();
                    v[l - 1] |= 0x80 | (1 << self.t.usize(7));
                    if self.t.chance(1, 2) {
                        v[0] |= 0x80;
                    }
                }
            }
        }
        out.fault(RAW_KINDS[kind]);
        v
    }
}

impl<'a> Net<'a> {
    /// Deliver a byte string made of integer sub-fields `(len, big_endian)`: intact, raw-mangled, or with
    /// one sub-field replaced by a boundary value of the scheme (0, 1, n-1, n, n+k, p-1, p, p+k, 2n, all ones).
    fn structured(&mut self, out: &mut RunOut, b: &[u8], parts: &[(usize, bool)], bounds: &Bounds) -> Vec<u8> {
        let total: usize = parts.iter().map(|p| p.0).sum();
        if self.rate == 0 || total != b.len() || !self.t.chance(self.rate, 2000) {
            return self.field(out, b);
        }
        let which = self.t.usize(parts.len());
        let off: usize = parts[..which].iter().map(|p| p.0).sum();
        let (len, be) = parts[which];
        let v = boundary(self.t, len, be, bounds);
        let mut r = b.to_vec();
        r[off..off + len].copy_from_slice(&v);
        self.junkyard.push(b.to_vec());
        out.fault("fault.rawmangle.boundary_value_in_field");
        r
    }
    /// A point-like field: intact, raw-mangled, or replaced by a known special encoding.
    fn pointish(&mut self, out: &mut RunOut, b: &[u8], specials: &[Vec<u8>]) -> Vec<u8> {
        if self.rate == 0 || specials.is_empty() || !self.t.chance(self.rate, 2500) {
            return self.field(out, b);
        }
        let c: Vec<&Vec<u8>> = specials.iter().filter(|x| x.len() == b.len()).collect();
        if c.is_empty() {
            return self.field(out, b);
        }
        self.junkyard.push(b.to_vec());
        out.fault("fault.rawmangle.special_point_encoding");
        c[self.t.usize(c.len())].clone()
    }
}

fn yesno(out: &mut RunOut, what: &'static str, ok: bool) {
    out.probe(if ok { "probe.exchange.accepted" } else { "probe.exchange.rejected" });
    let _ = what;
}

macro_rules! g {
    ($out:expr, $label:expr, $ctx:expr, $f:expr) => {
        guard_c19($out, ENG, $label, || $ctx, || $f)
    };
}

fn ctx_bytes(t: &mut Tape, rng: &mut SimRng) -> Vec<u8> {
    // documented: at most 255 bytes
    let l = match t.usize(4) {
        0 => 0,
        1 => 255,
        2 => 1 + t.usize(16),
        _ => t.usize(256),
    };
    rng.bytes(l)
}

fn rm_bits(t: &mut Tape, tier: Tier) -> usize {
    // documented domain 8..=32; large values cost more, so they are rarer
    match t.usize(if tier == Tier::Thorough { 6 } else { 12 }) {
        0 => 32,
        1 => 24 + t.usize(8),
        2 => 16 + t.usize(8),
        _ => 8 + t.usize(9),
    }
}

fn hash_name(t: &mut Tape) -> &'static str {
    ["", "sha256", "sha512", "blake2s", "sha3256", "sha512256"][t.usize(6)]
}

/// The adversary against Ed25519 truncated verification who registers a *low-order public key* (the neutral
/// point decodes as a key): k*A vanishes, so V = 8*(R - (s0 + 2^251)*B) is whatever it wants - it picks a target
/// point T in the prime-order subgroup and sends R = T/8 + (s0 + 2^251)*B. Targets are chosen against the
/// search structure (a sorted table keyed by the low 48 bits of Montgomery u coordinates of j*2^240*B):
/// u = all-ones / zero in its low 48 bits (extreme search keys), a real table entry, a different point with
/// the same 48-bit key as a table entry, the neutral, +/-U. Returns (key bytes, 64-byte truncated signature).
fn ed25519_trunc_chosen_v(t: &mut Tape, rng: &mut SimRng, rm: usize) -> Option<(Vec<u8>, Vec<u8>, &'static str)> {
    use crrl::ed25519::{Point, Scalar};
    use crrl::field::GF25519;
    // point in the prime-order subgroup whose Montgomery u has the given low 48 bits
    let with_low48 = |low: u64, rng: &mut SimRng| -> Option<Point> {
        for _ in 0..200 {
            let mut ub = rng.bytes(32);
            ub[..6].copy_from_slice(&low.to_le_bytes()[..6]);
            ub[31] &= 0x3F;
            let u = GF25519::decode_reduce(&ub);
            if u.encode()[..6] != low.to_le_bytes()[..6] {
                continue;
            }
            let y = (u - GF25519::ONE) / (u + GF25519::ONE);
            let mut e = y.encode();
            if rng.u64() & 1 == 1 {
                e[31] |= 0x80;
            }
            if let Some(p) = Point::decode(&e) {
                if p.is_in_subgroup() != 0 && p.isneutral() == 0 {
                    return Some(p);
                }
            }
        }
        None
    };
    let mut sh = [0u8; 32];
    sh[30] = 1; // 2^240
    let t240 = Scalar::decode_reduce(&sh);
    let (target, what): (Point, &'static str) = match t.usize(7) {
        0 => (with_low48(0xFFFF_FFFF_FFFF, rng)?, "u low bits all ones"),
        1 => (with_low48(0, rng)?, "u low bits zero"),
        2 => (Point::BASE * (t240 * Scalar::from_u64(t.choose(1 << 14))), "a table entry"),
        3 => {
            let e = Point::BASE * (t240 * Scalar::from_u64(1 + t.choose((1 << 14) - 1)));
            let ub = e.to_montgomery_u().encode();
            let mut l = [0u8; 8];
            l[..6].copy_from_slice(&ub[..6]);
            (with_low48(u64::from_le_bytes(l), rng)?, "another point with a table entry's key")
        }
        4 => (Point::NEUTRAL, "the neutral"),
        5 => (Point::BASE * (t240 * Scalar::from_u64(1 << 14)), "the last table entry"),
        _ => {
            // +/- U = 2^(256 - rm + 3) * B
            let mut b = [0u8; 34];
            let e = 259 - rm;
            b[e >> 3] = 1 << (e & 7);
            let u = Point::BASE * Scalar::decode_reduce(&b);
            (if t.chance(1, 2) { u } else { -u }, "+/-U")
        }
    };
    let nbits = 256 - rm;
    let mut s0b = rng.bytes(32);
    for bit in nbits..256 {
        s0b[bit >> 3] &= !(1u8 << (bit & 7));
    }
    let s0 = Scalar::decode_reduce(&s0b);
    let mut t251 = [0u8; 32];
    t251[31] = 0x08;
    let w = target * (Scalar::ONE / Scalar::from_u64(8));
    let r = w + Point::BASE * (s0 + Scalar::decode_reduce(&t251));
    let mut sig = r.encode().to_vec();
    sig.extend_from_slice(&s0b);
    for i in 0..rm / 8 {
        sig[63 - i] = 0x77;
    }
    Some((Point::NEUTRAL.encode().to_vec(), sig, what))
}

fn ex_ed25519(n: &mut Net, out: &mut RunOut, tier: Tier) {
    use crrl::ed25519::{PrivateKey, PublicKey};
    let seed = n.rng.bytes(32);
    let sk = PrivateKey::from_seed(&seed);
    let pk_enc = sk.public_key.encode().to_vec();
    let mode = n.t.usize(3);
    let msg = { let l = n.t.usize(300); n.rng.bytes(l) };
    let ctx = ctx_bytes(n.t, &mut n.rng);
    let sig = match mode {
        0 => sk.sign_raw(&msg).to_vec(),
        1 => sk.sign_ctx(&ctx, &msg).to_vec(),
        _ => sk.sign_ph(&ctx, &msg).to_vec(),
    };
    out.ev(format_args!("ed25519 mode{} pk={} sig={}", mode, hex(&pk_enc), hex(&sig)));
    let bd = bounds_of!(crrl::ed25519::Scalar, crrl::field::GF25519);
    let sp = coord_sign_specials(&bd.field_m1, 32, &<crate::world::suite::Ed25519 as crate::world::suite::Suite>::bad_points());
    let (pk2, msg2) = (n.pointish(out, &pk_enc, &sp), n.field(out, &msg));
    // points related to the public key A, for the R field: A, -A, 2A, the generator (the verification equation
    // then adds / subtracts equal or opposite points)
    let mut sp_r = sp.clone();
    {
        use crrl::ed25519::Point;
        let a = sk.public_key.point;
        for q in [a, -a, a.double(), Point::BASE, -Point::BASE, a + Point::BASE] {
            sp_r.push(q.encode().to_vec());
        }
    }
    let sig2 = if n.t.chance(1, 3) {
        // special encodings for R, boundary values for S
        let r = n.pointish(out, &sig[..32], &sp_r);
        let sv = n.structured(out, &sig[32..], &[(32, false)], &bd);
        [r, sv].concat()
    } else {
        n.structured(out, &sig, &[(32, false), (32, false)], &bd)
    };
    let ctx2 = { let c = n.field(out, &ctx); if c.len() > 255 { c[..255].to_vec() } else { c } };
    let skd = n.field(out, &sk.encode());
    let r = g!(out, "call.ed25519.PrivateKey_decode", hex_abbrev(&skd), PrivateKey::decode(&skd).map(|k| k.public_key.encode()));
    out.ev(format_args!(" sk decode -> {:?}", r.map(|x| x.map(|e| hex(&e)))));
    let pk = match g!(out, "call.ed25519.PublicKey_decode", hex_abbrev(&pk2), PublicKey::decode(&pk2)) {
        Some(Some(pk)) => pk,
        _ => {
            out.ev(format_args!(" pk refused"));
            yesno(out, "pk", false);
            return;
        }
    };
    let v = match mode {
        0 => g!(out, "call.ed25519.verify_raw", format!("{} {}", hex(&sig2), hex_abbrev(&msg2)), pk.verify_raw(&sig2, &msg2)),
        1 => g!(out, "call.ed25519.verify_ctx", format!("{} {}", hex(&sig2), hex_abbrev(&msg2)), pk.verify_ctx(&sig2, &ctx2, &msg2)),
        _ => g!(out, "call.ed25519.verify_ph", format!("{} {}", hex(&sig2), hex_abbrev(&msg2)), pk.verify_ph(&sig2, &ctx2, &msg2)),
    };
    out.ev(format_args!(" verify -> {:?}", v));
    yesno(out, "ed25519", v == Some(true));
    // the same key built from a decoded point (constructor of its own), special and low-order points included
    if let Some(Some(pt)) = g!(out, "call.ed25519.Point_decode", hex_abbrev(&pk2), crrl::ed25519::Point::decode(&pk2)) {
        let pk3 = PublicKey::from_point(&pt);
        let v3 = g!(out, "call.ed25519.verify_raw", format!("{} {}", hex(&sig2), hex_abbrev(&msg2)), pk3.verify_raw(&sig2, &msg2));
        out.ev(format_args!(" from_point key {} verify_raw -> {:?}", hex(&pk3.encode()), v3));
    }
    // truncated verification within its documented rm range
    if n.t.chance(1, 3) {
        let rm = rm_bits(n.t, tier);
        let mut ts = sig2.clone();
        if ts.len() == 64 && n.t.chance(1, 2) {
            // really reuse the last rm bits for other data
            let nb = rm / 8;
            for i in 0..nb {
                ts[63 - i] = 0xAA;
            }
        }
        let r = match mode {
            0 => g!(out, "call.ed25519.verify_trunc_raw", format!("rm={} {}", rm, hex(&ts)), pk.verify_trunc_raw(&ts, rm, &msg2)),
            1 => g!(out, "call.ed25519.verify_trunc_ctx", format!("rm={} {}", rm, hex(&ts)), pk.verify_trunc_ctx(&ts, rm, &ctx2, &msg2)),
            _ => g!(out, "call.ed25519.verify_trunc_ph", format!("rm={} {}", rm, hex(&ts)), pk.verify_trunc_ph(&ts, rm, &ctx2, &msg2)),
        };
        out.ev(format_args!(" verify_trunc rm={} -> {:?}", rm, r.map(|x| x.map(|s| hex(&s)))));
        yesno(out, "ed25519trunc", matches!(r, Some(Some(_))));
        out.probe("probe.exchange.truncated_verification");
    }
    if n.t.chance(1, 12) {
        let rm = rm_bits(n.t, tier);
        let mut arng = SimRng::new(n.rng.u64());
        if let Some((kb, ts, what)) = ed25519_trunc_chosen_v(n.t, &mut arng, rm) {
            out.probe("probe.exchange.ed25519_trunc_low_order_key_chosen_target");
            if let Some(Some(pkx)) = g!(out, "call.ed25519.PublicKey_decode", hex(&kb), PublicKey::decode(&kb)) {
                let r = g!(out, "call.ed25519.verify_trunc_raw", format!("rm={} {} ({})", rm, hex(&ts), what), pkx.verify_trunc_raw(&ts, rm, &msg));
                out.ev(format_args!(" low-order key, chosen target ({}) rm={} -> {:?}", what, rm, r.map(|x| x.map(|s| hex(&s)))));
            }
        }
    }
    // The signer-adversary against the baby-step / giant-step search of truncated verification: the missing top
    // bits s1 of S are found as s1 = a + I*b (0 <= a < I, -J <= b <= J). Honest signatures land on the edges of
    // that search (b = 0: an intermediate point is the neutral; b = +/-J, a = I-1, s1 = +/-2^m: first / last table
    // and loop positions) with probability about 2^-15 each; a signer who grinds the message counter gets them
    // at will. (Not under the interpreter: tens of thousands of signatures.)
    if n.t.chance(1, 40) {
        let rm = rm_bits(n.t, tier);
        let class = n.t.usize(5);
        if !cfg!(miri) {
            let nbits = 256 - rm;
            let m = rm - 5;
            let nj = m.min(14);
            let ni = m - nj;
            let (ii, jj) = (1i64 << ni, 1i64 << nj);
            let mut found: Option<(Vec<u8>, Vec<u8>)> = None;
            let base = n.rng.bytes(12);
            for ctr in 0u32..120_000 {
                let mut mm = base.clone();
                mm.extend_from_slice(&ctr.to_le_bytes());
                let sg = sk.sign_raw(&mm);
                // hi = S >> nbits (S < 2^253, so at most rm - 3 bits)
                let mut hi: u64 = 0;
                for bit in nbits..256 {
                    hi |= (((sg[32 + (bit >> 3)] >> (bit & 7)) & 1) as u64) << (bit - nbits);
                }
                let s1 = hi as i64 - (1i64 << m);
                let a = s1.rem_euclid(ii);
                let b = (s1 - a) / ii;
                let hit = match class {
                    0 => b == 0,
                    1 => b == jj || b == -jj,
                    2 => a == ii - 1 && (b == 0 || b.abs() >= jj - 1),
                    3 => s1 == (1i64 << m) || s1 == -(1i64 << m),
                    _ => b.abs() <= 1 && a == 0,
                };
                if hit {
                    found = Some((mm, sg.to_vec()));
                    break;
                }
            }
            if let Some((mm, sg)) = found {
                out.probe("probe.exchange.ed25519_trunc_signature_ground_to_search_edge");
                let mut ts = sg.clone();
                for i in 0..rm / 8 {
                    ts[63 - i] = 0xAA;
                }
                let r = g!(out, "call.ed25519.verify_trunc_raw", format!("rm={} {}", rm, hex(&ts)), sk.public_key.verify_trunc_raw(&ts, rm, &mm));
                out.ev(format_args!(" ground signature class {} rm={} -> rebuilt equals original: {:?}", class, rm, r.map(|x| x.map(|s| s[..] == sg[..]))));
            }
        }
    }
}

fn ex_ed448(n: &mut Net, out: &mut RunOut) {
    use crrl::ed448::{PrivateKey, PublicKey};
    let seed = n.rng.bytes(57);
    let sk = PrivateKey::from_seed(&seed);
    let pk_enc = sk.public_key.encode().to_vec();
    let mode = n.t.usize(3);
    let msg = { let l = n.t.usize(300); n.rng.bytes(l) };
    let ctx = ctx_bytes(n.t, &mut n.rng);
    let sig = match mode {
        0 => sk.sign_raw(&msg).to_vec(),
        1 => sk.sign_ctx(&ctx, &msg).to_vec(),
        _ => sk.sign_ph(&ctx, &msg).to_vec(),
    };
    out.ev(format_args!("ed448 mode{} pk={} sig={}", mode, hex(&pk_enc), hex(&sig)));
    let bd = bounds_of!(crrl::ed448::Scalar, crrl::field::GF448);
    let sp = coord_sign_specials(&bd.field_m1, 57, &<crate::world::suite::Ed448 as crate::world::suite::Suite>::bad_points());
    let (pk2, msg2) = (n.pointish(out, &pk_enc, &sp), n.field(out, &msg));
    let mut sp_r = sp.clone();
    {
        use crrl::ed448::Point;
        let a = sk.public_key.point;
        for q in [a, -a, a.double(), Point::BASE, -Point::BASE, a + Point::BASE] {
            sp_r.push(q.encode().to_vec());
        }
    }
    let sig2 = if n.t.chance(1, 3) {
        let r = n.pointish(out, &sig[..57], &sp_r);
        let sv = n.structured(out, &sig[57..], &[(56, false), (1, false)], &bd);
        [r, sv].concat()
    } else {
        n.structured(out, &sig, &[(56, false), (1, false), (56, false), (1, false)], &bd)
    };
    let ctx2 = { let c = n.field(out, &ctx); if c.len() > 255 { c[..255].to_vec() } else { c } };
    let skd = n.field(out, &sk.encode());
    let r = g!(out, "call.ed448.PrivateKey_decode", hex_abbrev(&skd), PrivateKey::decode(&skd).map(|k| k.public_key.encode()));
    out.ev(format_args!(" sk decode -> {:?}", r.map(|x| x.map(|e| hex(&e)))));
    let pk = match g!(out, "call.ed448.PublicKey_decode", hex_abbrev(&pk2), PublicKey::decode(&pk2)) {
        Some(Some(pk)) => pk,
        _ => {
            out.ev(format_args!(" pk refused"));
            yesno(out, "pk", false);
            return;
        }
    };
    let v = match mode {
        0 => g!(out, "call.ed448.verify_raw", format!("{} {}", hex(&sig2), hex_abbrev(&msg2)), pk.verify_raw(&sig2, &msg2)),
        1 => g!(out, "call.ed448.verify_ctx", format!("{} {}", hex(&sig2), hex_abbrev(&msg2)), pk.verify_ctx(&sig2, &ctx2, &msg2)),
        _ => g!(out, "call.ed448.verify_ph", format!("{} {}", hex(&sig2), hex_abbrev(&msg2)), pk.verify_ph(&sig2, &ctx2, &msg2)),
    };
    out.ev(format_args!(" verify -> {:?}", v));
    yesno(out, "ed448", v == Some(true));
    if let Some(Some(pt)) = g!(out, "call.ed448.Point_decode", hex_abbrev(&pk2), crrl::ed448::Point::decode(&pk2)) {
        let pk3 = PublicKey::from_point(&pt);
        let v3 = g!(out, "call.ed448.verify_raw", format!("{} {}", hex(&sig2), hex_abbrev(&msg2)), pk3.verify_raw(&sig2, &msg2));
        out.ev(format_args!(" from_point key {} verify_raw -> {:?}", hex(&pk3.encode()), v3));
    }
}

fn hash_value(n: &mut Net) -> Vec<u8> {
    // hashes of length 0..80 (documented: arbitrary length)
    let l = match n.t.usize(5) {
        0 => 32,
        1 => 0,
        2 => 64,
        3 => 33,
        _ => n.t.usize(81),
    };
    n.rng.bytes(l)
}


/// ECDSA signatures may be presented over other even lengths (r and s each padded with leading zeros, or
/// with leading zeros stripped): re-encode a 64-byte signature that way, optionally zeroing one half.
fn ecdsa_repad(n: &mut Net, out: &mut RunOut, sig: &[u8]) -> Vec<u8> {
    if sig.len() != 64 || n.rate == 0 || !n.t.chance(n.rate, 3000) {
        return sig.to_vec();
    }
    let half = [33usize, 34, 40, 48, 64, 31, 24, 16, 1, 0][n.t.usize(10)];
    let mut r = sig[..32].to_vec();
    let mut s = sig[32..].to_vec();
    match n.t.usize(5) {
        0 => r.iter_mut().for_each(|x| *x = 0),
        1 => s.iter_mut().for_each(|x| *x = 0),
        _ => {}
    }
    let fit = |v: &[u8], l: usize| -> Vec<u8> {
        if l >= 32 {
            let mut o = vec![0u8; l - 32];
            o.extend_from_slice(v);
            o
        } else {
            v[32 - l..].to_vec()
        }
    };
    out.fault("fault.rawmangle.ecdsa_repadded_signature");
    [fit(&r, half), fit(&s, half)].concat()
}

/// The adversary who picks its *key* after seeing (r, hash): Q = -(h/r)*G makes h*G + r*Q the point at infinity,
/// so every intermediate of the ECDSA verification equation degenerates (the classic "exceptional case"
/// input). Returned as a compressed SEC1 key; `None` if r is 0 or not a scalar.
macro_rules! ecdsa_degenerate_key {
    ($m:ident, $hv:expr, $r_be:expr) => {{
        use crrl::$m::{Point, Scalar};
        let mut tmp = [0u8; 32];
        let hv: &[u8] = $hv;
        if hv.len() >= 32 {
            tmp.copy_from_slice(&hv[..32]);
        } else {
            tmp[32 - hv.len()..].copy_from_slice(hv);
        }
        tmp.reverse();
        let h = Scalar::decode_reduce(&tmp);
        let mut rb: Vec<u8> = $r_be.to_vec();
        rb.reverse();
        match Scalar::decode(&rb) {
            Some(r) if r.iszero() == 0 => {
                let q = Point::mulgen(&(-(h / r)));
                if q.isneutral() != 0 { None } else { Some(q.encode_compressed().to_vec()) }
            }
            _ => None,
        }
    }};
}

/// The signer-adversary who knows the private key d and picks r = +/- h/d: then (h/s)*G = +/- (r/s)*Q, so the
/// final addition of the verification equation adds two equal points (or opposite ones). s is arbitrary.
macro_rules! ecdsa_equal_terms_sig {
    ($m:ident, $hv:expr, $sk_be:expr, $neg:expr, $s_le:expr) => {{
        use crrl::$m::Scalar;
        let mut tmp = [0u8; 32];
        let hv: &[u8] = $hv;
        if hv.len() >= 32 {
            tmp.copy_from_slice(&hv[..32]);
        } else {
            tmp[32 - hv.len()..].copy_from_slice(hv);
        }
        tmp.reverse();
        let h = Scalar::decode_reduce(&tmp);
        let mut db: Vec<u8> = $sk_be.to_vec();
        db.reverse();
        let d = Scalar::decode_reduce(&db);
        if d.iszero() != 0 || h.iszero() != 0 {
            None
        } else {
            let mut r = h / d;
            if $neg {
                r = -r;
            }
            let s = Scalar::decode_reduce($s_le);
            let mut rb = r.encode().to_vec();
            rb.reverse();
            let mut sb = s.encode().to_vec();
            sb.reverse();
            rb.extend_from_slice(&sb);
            Some(rb)
        }
    }};
}

/// The adversary against the baby-step / giant-step search of P-256 truncated verification: the verifier
/// tabulates the x coordinates of U_i = (s0 + i*2^(k+n))*R, keyed by their low bits, and looks every
/// V_j = h*G + r*Q - j*2^n*R up in that table. Choosing R and the key Q so that U_i = T1 and V_j = T2 for two
/// *different* points whose x coordinates agree in their low 64 bits (both zero) forces a key collision that is
/// not a match, at chosen positions (i, j) - including the first table entry. Everything is computed with the
/// library's public arithmetic, as an attacker would. Returns (uncompressed key, 64-byte truncated signature, hash).
fn p256_trunc_bucket_collision(mode: usize, rm: usize, i: u64, j: u64, tstart: u64, hv: &[u8; 32], s0seed: &[u8]) -> Option<(Vec<u8>, Vec<u8>)> {
    use crrl::p256::{Point, Scalar};
    let nb = 256 - rm;
    let m = 255 - nb;
    let k = (m + 1) >> 1;
    let i = i.min(1u64 << (m - k));
    let j = j.min(1u64 << k);
    let find = |mut t: u64| -> (Point, u64) {
        loop {
            let mut enc = [0u8; 33];
            enc[0] = 0x02;
            // x big-endian in enc[1..33]; its low 8 bytes stay zero
            enc[17..25].copy_from_slice(&t.to_be_bytes());
            if let Some(p) = Point::decode(&enc) {
                return (p, t);
            }
            t = t.wrapping_add(1);
        }
    };
    let (t1p, t1) = find(tstart | 1);
    let (t2p, _) = find(t1.wrapping_add(1));
    // other modes: V_j is the point at infinity; U_i or V_j is one of the two points with x = 0 (the x-only
    // ladder has a branch for them); U_i = V_j, a real match at the chosen table position
    let xzero = {
        let mut e = [0u8; 33];
        e[0] = 0x02;
        Point::decode(&e)
    };
    let (t1p, t2p) = match mode {
        1 => (t1p, Point::NEUTRAL),
        2 => (xzero?, t2p),
        3 => (t1p, xzero?),
        4 => (t1p, t1p),
        _ => (t1p, t2p),
    };
    let pow2 = |e: usize| -> Scalar {
        let mut b = [0u8; 33];
        b[e >> 3] = 1u8 << (e & 7);
        Scalar::decode_reduce(&b)
    };
    let mut s0_le = [0u8; 32];
    for z in 0..(nb >> 3) {
        s0_le[z] = s0seed[z % s0seed.len().max(1)] | 1;
    }
    let s0 = Scalar::decode_reduce(&s0_le);
    let e = s0 + Scalar::from_u64(i) * pow2(k + nb);
    if e.iszero() != 0 {
        return None;
    }
    let r_pt = t1p * (Scalar::ONE / e);
    let mut r_be = [0u8; 32];
    r_be.copy_from_slice(&r_pt.encode_compressed()[1..33]);
    let mut r_le = r_be;
    r_le.reverse();
    let r = Scalar::decode(&r_le)?;
    if r.iszero() != 0 {
        return None;
    }
    let mut renc = [0u8; 33];
    renc[0] = 0x02;
    renc[1..].copy_from_slice(&r_be);
    let rd = Point::decode(&renc)?;
    let mut hb = *hv;
    hb.reverse();
    let h = Scalar::decode_reduce(&hb);
    let u = rd.xdouble(nb as u32);
    let q = (t2p + u * Scalar::from_u64(j) - Point::mulgen(&h)) * (Scalar::ONE / r);
    if q.isneutral() != 0 {
        return None;
    }
    let mut sig = vec![0u8; 64];
    sig[..32].copy_from_slice(&r_be);
    sig[32..].copy_from_slice(&s0_le);
    for z in (nb >> 3)..32 {
        sig[32 + z] = 0xC3;
    }
    Some((q.encode_uncompressed().to_vec(), sig))
}

fn ex_p256(n: &mut Net, out: &mut RunOut, tier: Tier) {
    use crrl::p256::{PrivateKey, PublicKey};
    let seed = { let l = 16 + n.t.usize(40); n.rng.bytes(l) };
    let sk = PrivateKey::from_seed(&seed);
    let pk = sk.to_public_key();
    let pk_enc = if n.t.chance(1, 2) { pk.encode_compressed().to_vec() } else { pk.encode_uncompressed().to_vec() };
    let hv = hash_value(n);
    let extra = if n.t.chance(1, 3) { n.rng.bytes(8) } else { Vec::new() };
    let sig = sk.sign_hash(&hv, &extra).to_vec();
    out.ev(format_args!("p256 pk={} hv={} sig={}", hex(&pk_enc), hex(&hv), hex(&sig)));
    let bd = bounds_of!(crrl::p256::Scalar, crrl::field::GFp256);
    let sig2 = n.structured(out, &sig, &[(32, true), (32, true)], &bd);
    let sig2 = ecdsa_repad(n, out, &sig2);
    let pk2 = if n.t.chance(1, 3) {
        n.pointish(out, &pk_enc, &sec1_specials(&bd.field_m1, &[]))
    } else if pk_enc.len() == 33 {
        n.structured(out, &pk_enc, &[(1, true), (32, true)], &bd)
    } else {
        n.structured(out, &pk_enc, &[(1, true), (32, true), (32, true)], &bd)
    };
    let hv2 = n.field(out, &hv);
    let skd = n.field(out, &sk.encode());
    let r = g!(out, "call.p256.PrivateKey_decode", hex_abbrev(&skd), PrivateKey::decode(&skd).map(|k| k.to_public_key().encode_compressed()));
    out.ev(format_args!(" sk decode -> {:?}", r.map(|x| x.map(|e| hex(&e)))));
    let pkd = match g!(out, "call.p256.PublicKey_decode", hex_abbrev(&pk2), PublicKey::decode(&pk2)) {
        Some(Some(pk)) => pk,
        _ => {
            out.ev(format_args!(" pk refused"));
            yesno(out, "pk", false);
            return;
        }
    };
    let v = g!(out, "call.p256.verify_hash", format!("{} {}", hex(&sig2), hex(&hv2)), pkd.verify_hash(&sig2, &hv2));
    out.ev(format_args!(" verify -> {:?}", v));
    yesno(out, "p256", v == Some(true));
    if n.t.chance(1, 4) {
        let rm = rm_bits(n.t, tier);
        let r = g!(out, "call.p256.verify_trunc_hash", format!("rm={} {} {}", rm, hex(&sig2), hex(&hv2)), pkd.verify_trunc_hash(&sig2, rm, &hv2));
        out.ev(format_args!(" verify_trunc rm={} -> {:?}", rm, r.map(|x| x.map(|s| hex(&s)))));
        yesno(out, "p256trunc", matches!(r, Some(Some(_))));
        out.probe("probe.exchange.truncated_verification");
    }
    if n.t.chance(1, 10) {
        // table-collision adversary of the truncated verification (see p256_trunc_bucket_collision)
        let rm = rm_bits(n.t, tier);
        let (i, j) = match n.t.usize(4) {
            0 => (0u64, 0u64),
            1 => (0, n.t.choose(300)),
            2 => (n.t.choose(300), 0),
            _ => (n.t.choose(1 << 16), n.t.choose(1 << 16)),
        };
        let mut h32 = [0u8; 32];
        let hb = n.rng.bytes(32);
        h32.copy_from_slice(&hb);
        let seed = n.rng.bytes(8);
        let ts = n.rng.u64();
        let mode = n.t.usize(5);
        let (i, j) = if mode == 1 || mode == 4 { (i, [0u64, 1, 99, 100, 101, 199, 200, 201, u64::MAX][n.t.usize(9)]) } else { (i, j) };
        if let Some((qk, ts_sig)) = p256_trunc_bucket_collision(mode, rm, i, j, ts, &h32, &seed) {
            out.probe("probe.exchange.p256_trunc_table_collision_crafted");
            if let Some(Some(pkx)) = g!(out, "call.p256.PublicKey_decode", hex(&qk), PublicKey::decode(&qk)) {
                let r = g!(out, "call.p256.verify_trunc_hash", format!("rm={} {} {} key {}", rm, hex(&ts_sig), hex(&h32), hex(&qk)), pkx.verify_trunc_hash(&ts_sig, rm, &h32));
                out.ev(format_args!(" table-collision key/signature rm={} i={} j={} -> {:?}", rm, i, j, r.map(|x| x.map(|s| hex(&s)))));
            }
        }
    }
    if n.t.chance(1, 8) {
        let sb = n.rng.bytes(40);
        let neg = n.t.chance(1, 2);
        if let Some(es) = ecdsa_equal_terms_sig!(p256, &hv, &sk.encode(), neg, &sb) {
            out.probe("probe.exchange.ecdsa_signature_crafted_for_equal_terms");
            let v = g!(out, "call.p256.verify_hash", format!("{} {}", hex(&es), hex(&hv)), pk.verify_hash(&es, &hv));
            out.ev(format_args!(" equal-terms signature {} verify -> {:?}", hex(&es), v));
        }
    }
    if n.t.chance(1, 6) && sig.len() == 64 {
        // key chosen by the adversary for this (r, hash): degenerate verification equation, plain and truncated
        if let Some(qk) = ecdsa_degenerate_key!(p256, &hv2, &sig[..32]) {
            out.probe("probe.exchange.ecdsa_key_crafted_for_degenerate_equation");
            if let Some(Some(pkx)) = g!(out, "call.p256.PublicKey_decode", hex(&qk), PublicKey::decode(&qk)) {
                let mut s2 = sig.clone();
                match n.t.usize(3) {
                    0 => {}
                    1 => s2[32..].iter_mut().for_each(|b| *b = 0),
                    _ => { s2[32..].iter_mut().for_each(|b| *b = 0); s2[63] = 1; }
                }
                let v = g!(out, "call.p256.verify_hash", format!("{} {}", hex(&s2), hex(&hv2)), pkx.verify_hash(&s2, &hv2));
                out.ev(format_args!(" crafted key {} verify -> {:?}", hex(&qk), v));
                if let Some(Some(p)) = g!(out, "call.p256.prepare_truncate", hex(&sig), PrivateKey::prepare_truncate(&sig)) {
                    let rm = rm_bits(n.t, tier);
                    let mut ts = p.to_vec();
                    // retained part of s: zero, one, or as signed; the truncated bits are garbage
                    match n.t.usize(3) {
                        0 => ts[32..].iter_mut().for_each(|b| *b = 0),
                        1 => { ts[32..].iter_mut().for_each(|b| *b = 0); ts[32] = 1; }
                        _ => {}
                    }
                    for i in 0..rm / 8 {
                        ts[63 - i] = 0x5A;
                    }
                    let r = g!(out, "call.p256.verify_trunc_hash", format!("rm={} {} {}", rm, hex(&ts), hex(&hv2)), pkx.verify_trunc_hash(&ts, rm, &hv2));
                    out.ev(format_args!(" crafted key verify_trunc rm={} -> {:?}", rm, r.map(|x| x.map(|s| hex(&s)))));
                }
            }
        }
    }
    if n.t.chance(1, 4) {
        // the documented flow: the signer prepares (r, s) for truncation, the last rm bits are dropped (here:
        // overwritten), the verifier rebuilds the signature. prepare_truncate also gets the delivered bytes.
        let pd = g!(out, "call.p256.prepare_truncate", hex(&sig2), PrivateKey::prepare_truncate(&sig2));
        out.ev(format_args!(" prepare_truncate(delivered) -> {:?}", pd.map(|x| x.map(|s| hex(&s)))));
        let prep = g!(out, "call.p256.prepare_truncate", hex(&sig), PrivateKey::prepare_truncate(&sig)).flatten();
        if let Some(p) = prep {
            let rm = rm_bits(n.t, tier);
            let mut ts = p.to_vec();
            let nb = rm / 8;
            for i in 0..nb {
                ts[63 - i] = 0x55;
            }
            if rm % 8 != 0 {
                ts[63 - nb] |= (0xFFu8 << (8 - rm % 8)) & 0xAA;
            }
            let ts2 = n.structured(out, &ts, &[(32, true), (32, false)], &bd);
            if ts2.len() == 64 {
                let r = g!(out, "call.p256.verify_trunc_hash", format!("rm={} {} {}", rm, hex(&ts2), hex(&hv2)), pkd.verify_trunc_hash(&ts2, rm, &hv2));
                let again = match r {
                    Some(Some(full)) => g!(out, "call.p256.verify_hash", hex(&full), pkd.verify_hash(&full, &hv2)),
                    _ => None,
                };
                out.ev(format_args!(" prepared+truncated rm={} -> {:?} ; rebuilt verifies {:?}", rm, r.map(|x| x.map(|s| hex(&s))), again));
                yesno(out, "p256trunc", matches!(r, Some(Some(_))));
                out.probe("probe.exchange.truncated_verification_prepared");
            }
        }
    }
}

fn ex_secp256k1(n: &mut Net, out: &mut RunOut) {
    use crrl::secp256k1::{PrivateKey, PublicKey};
    let seed = { let l = 16 + n.t.usize(40); n.rng.bytes(l) };
    let sk = PrivateKey::from_seed(&seed);
    let pk = sk.to_public_key();
    let pk_enc = if n.t.chance(1, 2) { pk.encode_compressed().to_vec() } else { pk.encode_uncompressed().to_vec() };
    let hv = hash_value(n);
    let extra = if n.t.chance(1, 3) { n.rng.bytes(8) } else { Vec::new() };
    let sig = sk.sign_hash(&hv, &extra).to_vec();
    out.ev(format_args!("secp256k1 pk={} hv={} sig={}", hex(&pk_enc), hex(&hv), hex(&sig)));
    let bd = bounds_of!(crrl::secp256k1::Scalar, crrl::field::GFsecp256k1);
    let sig2 = n.structured(out, &sig, &[(32, true), (32, true)], &bd);
    let sig2 = ecdsa_repad(n, out, &sig2);
    let pk2 = if n.t.chance(1, 3) {
        n.pointish(out, &pk_enc, &sec1_specials(&bd.field_m1, &[]))
    } else if pk_enc.len() == 33 {
        n.structured(out, &pk_enc, &[(1, true), (32, true)], &bd)
    } else {
        n.structured(out, &pk_enc, &[(1, true), (32, true), (32, true)], &bd)
    };
    let hv2 = n.field(out, &hv);
    let skd = n.field(out, &sk.encode());
    let r = g!(out, "call.secp256k1.PrivateKey_decode", hex_abbrev(&skd), PrivateKey::decode(&skd).map(|k| k.to_public_key().encode_compressed()));
    out.ev(format_args!(" sk decode -> {:?}", r.map(|x| x.map(|e| hex(&e)))));
    let pkd = match g!(out, "call.secp256k1.PublicKey_decode", hex_abbrev(&pk2), PublicKey::decode(&pk2)) {
        Some(Some(pk)) => pk,
        _ => {
            out.ev(format_args!(" pk refused"));
            yesno(out, "pk", false);
            return;
        }
    };
    let v = g!(out, "call.secp256k1.verify_hash", format!("{} {}", hex(&sig2), hex(&hv2)), pkd.verify_hash(&sig2, &hv2));
    out.ev(format_args!(" verify -> {:?}", v));
    yesno(out, "secp256k1", v == Some(true));
    if n.t.chance(1, 8) {
        let sb = n.rng.bytes(40);
        let neg = n.t.chance(1, 2);
        if let Some(es) = ecdsa_equal_terms_sig!(secp256k1, &hv, &sk.encode(), neg, &sb) {
            out.probe("probe.exchange.ecdsa_signature_crafted_for_equal_terms");
            let v = g!(out, "call.secp256k1.verify_hash", format!("{} {}", hex(&es), hex(&hv)), pk.verify_hash(&es, &hv));
            out.ev(format_args!(" equal-terms signature {} verify -> {:?}", hex(&es), v));
        }
    }
    if n.t.chance(1, 6) && sig.len() == 64 {
        if let Some(qk) = ecdsa_degenerate_key!(secp256k1, &hv2, &sig[..32]) {
            out.probe("probe.exchange.ecdsa_key_crafted_for_degenerate_equation");
            if let Some(Some(pkx)) = g!(out, "call.secp256k1.PublicKey_decode", hex(&qk), PublicKey::decode(&qk)) {
                let mut s2 = sig.clone();
                match n.t.usize(3) {
                    0 => {}
                    1 => s2[32..].iter_mut().for_each(|b| *b = 0),
                    _ => { s2[32..].iter_mut().for_each(|b| *b = 0); s2[63] = 1; }
                }
                let v = g!(out, "call.secp256k1.verify_hash", format!("{} {}", hex(&s2), hex(&hv2)), pkx.verify_hash(&s2, &hv2));
                out.ev(format_args!(" crafted key {} verify -> {:?}", hex(&qk), v));
            }
        }
    }
}

macro_rules! ex_schnorr {
    ($fname:ident, $m:ident, $name:expr, $fm1:expr, $cmul:expr) => {
        fn $fname(n: &mut Net, out: &mut RunOut) {
            use crrl::$m::{Point, PrivateKey, PublicKey, Scalar};
            let ska = PrivateKey::generate(&mut n.rng);
            let skb = PrivateKey::generate(&mut n.rng);
            let pka = ska.public_key.encode().to_vec();
            let pkb = skb.public_key.encode().to_vec();
            let hn = hash_name(n.t);
            let data = { let l = if hn.is_empty() { n.t.usize(200) } else { 32 + n.t.usize(33) }; n.rng.bytes(l) };
            let sig = match n.t.usize(3) {
                0 => ska.sign(hn, &data).to_vec(),
                1 => { let s = n.rng.bytes(12); ska.sign_seeded(&s, hn, &data).to_vec() }
                _ => ska.sign_randomized(&mut n.rng, hn, &data).to_vec(),
            };
            out.ev(format_args!("{} pka={} pkb={} hn='{}' sig={}", $name, hex(&pka), hex(&pkb), hn, hex(&sig)));
            // signed message A -> B
            let bd = Bounds {
                order_m1: (Scalar::ZERO - Scalar::ONE).encode().to_vec(),
                field_m1: vec![0xFF; 32],
            };
            let mut specials: Vec<Vec<u8>> = coord_sign_specials(&$fm1, 32, &[]);
            // keys related to the parties' own keys: the own key, its negation, the other party's, the generator
            for q in [ska.public_key.point, -ska.public_key.point, skb.public_key.point, -skb.public_key.point, Point::BASE, -Point::BASE, ska.public_key.point + skb.public_key.point] {
                specials.push(q.encode().to_vec());
            }
            let (pk2, data2) = (n.pointish(out, &pka, &specials), n.field(out, &data));
            let sig2 = n.structured(out, &sig, &[(16, false), (32, false)], &bd);
            match g!(out, concat!("call.", $name, ".PublicKey_decode"), hex_abbrev(&pk2), PublicKey::decode(&pk2)) {
                Some(Some(pk)) => {
                    let v = g!(out, concat!("call.", $name, ".verify"), format!("{} {}", hex(&sig2), hex_abbrev(&data2)), pk.verify(&sig2, hn, &data2));
                    out.ev(format_args!(" verify -> {:?}", v));
                    yesno(out, $name, v == Some(true));
                }
                _ => {
                    out.ev(format_args!(" pk refused"));
                    yesno(out, "pk", false);
                }
            }
            // keys built through the constructors (documented domain: non-neutral point, non-zero scalar)
            if let Some(Some(pt)) = g!(out, concat!("call.", $name, ".Point_decode"), hex_abbrev(&pk2), Point::decode(&pk2)) {
                if pt.isneutral() == 0 {
                    let pk3 = PublicKey::from_point(&pt);
                    let v3 = g!(out, concat!("call.", $name, ".verify"), format!("{} {}", hex(&sig2), hex_abbrev(&data2)), pk3.verify(&sig2, hn, &data2));
                    out.ev(format_args!(" from_point key {} verify -> {:?}", hex(&pk3.encode()), v3));
                }
            }
            {
                let sb = n.structured(out, &ska.encode(), &[(32, false)], &bd);
                let sc = Scalar::decode_reduce(&sb);
                if sc.iszero() == 0 {
                    let k3 = PrivateKey::from_scalar(&sc);
                    out.ev(format_args!(" from_scalar key -> public {}", hex(&k3.public_key.encode())));
                }
            }
            // the adversary who picks its key after seeing (c, s): Q = (s/c')*B makes s*B - c'*Q the neutral point
            if n.t.chance(1, 6) && sig.len() == 48 {
                let cmul: fn(&[u8]) -> Scalar = $cmul;
                let cs = cmul(&sig[..16]);
                if let Some(sv) = Scalar::decode(&sig[16..]) {
                    if cs.iszero() == 0 && sv.iszero() == 0 {
                        let q = Point::mulgen(&(sv / cs));
                        if q.isneutral() == 0 {
                            out.probe("probe.exchange.schnorr_key_crafted_for_neutral_commitment");
                            let qe = q.encode().to_vec();
                            if let Some(Some(pkx)) = g!(out, concat!("call.", $name, ".PublicKey_decode"), hex(&qe), PublicKey::decode(&qe)) {
                                let v = g!(out, concat!("call.", $name, ".verify"), format!("{} {}", hex(&sig), hex_abbrev(&data2)), pkx.verify(&sig, hn, &data2));
                                out.ev(format_args!(" crafted key {} verify -> {:?}", hex(&qe), v));
                            }
                        }
                    }
                }
            }
            // key agreement both ways, each with whatever peer key arrives
            let (pb, pa) = (n.pointish(out, &pkb, &specials), n.pointish(out, &pka, &specials));
            let r1 = g!(out, concat!("call.", $name, ".ECDH"), hex_abbrev(&pb), ska.ECDH(&pb));
            let r2 = g!(out, concat!("call.", $name, ".ECDH"), hex_abbrev(&pa), skb.ECDH(&pa));
            for r in [r1, r2] {
                if let Some((key, st)) = r {
                    out.status(ENG, concat!($name, ".ECDH"), st);
                    // the failure key is documented as unguessable, not as a fixed value: only success keys are transcript material
                    if st == 0xFFFF_FFFF {
                        out.ev(format_args!(" ECDH ok key={}", hex(&key)));
                    } else {
                        out.ev(format_args!(" ECDH failed status={:#x}", st));
                    }
                    yesno(out, "ecdh", st == 0xFFFF_FFFF);
                }
            }
            // private key and point decoding of delivered bytes
            let skd = n.field(out, &ska.encode());
            let r = g!(out, concat!("call.", $name, ".PrivateKey_decode"), hex_abbrev(&skd), PrivateKey::decode(&skd).map(|k| k.public_key.encode()));
            out.ev(format_args!(" sk decode -> {:?}", r.map(|x| x.map(|e| hex(&e)))));
            let pd = n.pointish(out, &pkb, &specials);
            let r = g!(out, concat!("call.", $name, ".Point_set_decode"), hex_abbrev(&pd), {
                let mut p = Point::NEUTRAL;
                let st = p.set_decode(&pd);
                (st, p.encode())
            });
            if let Some((st, e)) = r {
                out.status(ENG, concat!($name, ".Point.set_decode"), st);
                out.ev(format_args!(" point set_decode -> {:#x} {}", st, if st != 0 { hex(&e) } else { String::new() }));
            }
            // byte-to-group map on delivered bytes of any length
            let hd = n.field(out, &data);
            let r = g!(out, concat!("call.", $name, ".hash_to_curve"), hex_abbrev(&hd), Point::hash_to_curve(hn, &hd).encode());
            out.ev(format_args!(" hash_to_curve -> {:?}", r.map(|e| hex(&e))));
        }
    };
}

ex_schnorr!(ex_jq255e, jq255e, "jq255e", (crrl::field::GF255e::ZERO - crrl::field::GF255e::ONE).encode(),
    |c: &[u8]| crrl::jq255e::Scalar::from_u128(u128::from_le_bytes(c.try_into().unwrap())));
ex_schnorr!(ex_jq255s, jq255s, "jq255s", (crrl::field::GF255s::ZERO - crrl::field::GF255s::ONE).encode(),
    |c: &[u8]| crrl::jq255s::Scalar::from_u128(u128::from_le_bytes(c.try_into().unwrap())));
ex_schnorr!(ex_gls254, gls254, "gls254", [0xFFu8; 32], |c: &[u8]| {
    use crrl::gls254::Scalar;
    Scalar::from_u64(u64::from_le_bytes(c[..8].try_into().unwrap())) + Scalar::from_u64(u64::from_le_bytes(c[8..16].try_into().unwrap())) * Scalar::MU
});

fn ex_x25519(n: &mut Net, out: &mut RunOut) {
    use crrl::x25519::{x25519, x25519_base};
    // private scalars: random, or all-zero / all-ones / a single bit (clamping and the ladder's first and last steps)
    let mut sc = |n: &mut Net| -> [u8; 32] {
        let mut v: [u8; 32] = n.rng.bytes(32).try_into().unwrap();
        match n.t.usize(8) {
            0 => v = [0u8; 32],
            1 => v = [0xFFu8; 32],
            2 => { v = [0u8; 32]; let e = n.t.usize(256); v[e / 8] = 1 << (e % 8); }
            _ => {}
        }
        v
    };
    let a = sc(n);
    let b = sc(n);
    let pa = x25519_base(&a);
    let pb = x25519_base(&b);
    out.ev(format_args!("x25519 pa={} pb={}", hex(&pa), hex(&pb)));
    let bd = bounds_of!(crrl::ed25519::Scalar, crrl::field::GF25519);
    // small-order and non-canonical u coordinates (the two order-8 values, 0, 1, p-1, p, p+1 and their top-bit twins)
    let sp = coord_sign_specials(&bd.field_m1, 32, &[
        crate::util::unhex("e0eb7a7c3b41b8ae1656e3faf19fc46ada098deb9c32b1fd866205165f49b800").unwrap(),
        crate::util::unhex("5f9c95bca3508c24b1d0b1559c83ef5b04445cc4581c8e86d8224eddd09f1157").unwrap(),
    ]);
    for (sk, peer) in [(a, pb), (b, pa)] {
        let d = if n.t.chance(1, 3) { n.pointish(out, &peer, &sp) } else { n.structured(out, &peer, &[(32, false)], &bd) };
        // the API takes fixed-size arrays: a wrong-length delivery cannot be passed at all
        if let Ok(arr) = <[u8; 32]>::try_from(&d[..]) {
            let r = g!(out, "call.x25519.x25519", hex(&arr), x25519(&arr, &sk));
            out.ev(format_args!(" shared -> {:?}", r.map(|e| hex(&e))));
            yesno(out, "x25519", true);
        } else {
            out.probe("probe.exchange.wrong_length_stopped_by_type");
        }
    }
}

fn ex_x448(n: &mut Net, out: &mut RunOut) {
    use crrl::x448::{x448, x448_base};
    let mut sc = |n: &mut Net| -> [u8; 56] {
        let mut v: [u8; 56] = n.rng.bytes(56).try_into().unwrap();
        match n.t.usize(8) {
            0 => v = [0u8; 56],
            1 => v = [0xFFu8; 56],
            2 => { v = [0u8; 56]; let e = n.t.usize(448); v[e / 8] = 1 << (e % 8); }
            _ => {}
        }
        v
    };
    let a = sc(n);
    let b = sc(n);
    let pa = x448_base(&a);
    let pb = x448_base(&b);
    out.ev(format_args!("x448 pa={} pb={}", hex(&pa), hex(&pb)));
    let bd = bounds_of!(crrl::ed448::Scalar, crrl::field::GF448);
    let sp = coord_sign_specials(&bd.field_m1, 56, &[]);
    for (sk, peer) in [(a, pb), (b, pa)] {
        let d = if n.t.chance(1, 3) { n.pointish(out, &peer, &sp) } else { n.structured(out, &peer, &[(56, false)], &bd) };
        if let Ok(arr) = <[u8; 56]>::try_from(&d[..]) {
            let r = g!(out, "call.x448.x448", hex(&arr), x448(&arr, &sk));
            out.ev(format_args!(" shared -> {:?}", r.map(|e| hex(&e))));
            yesno(out, "x448", true);
        } else {
            out.probe("probe.exchange.wrong_length_stopped_by_type");
        }
    }
}

fn ex_groups(n: &mut Net, out: &mut RunOut) {
    // prime-order group element decoding and one-way maps on delivered bytes
    {
        use crrl::ristretto255::{Point, Scalar};
        let s = Scalar::decode_reduce(&n.rng.bytes(40));
        let p = Point::mulgen(&s);
        let e = p.encode();
        let sp = coord_sign_specials(
            &(crrl::field::GF25519::ZERO - crrl::field::GF25519::ONE).encode(),
            32,
            &<crate::world::suite::Ristretto255 as crate::world::suite::Suite>::bad_points(),
        );
        let d = n.pointish(out, &e, &sp);
        let r = g!(out, "call.ristretto255.Point_decode", hex_abbrev(&d), Point::decode(&d).map(|p| p.encode()));
        out.ev(format_args!("ristretto255 decode {} -> {:?}", hex_abbrev(&d), r.map(|x| x.map(|e| hex(&e)))));
        let r = g!(out, "call.ristretto255.Point_set_decode", hex_abbrev(&d), {
            let mut q = Point::NEUTRAL;
            q.set_decode(&d)
        });
        if let Some(st) = r {
            out.status(ENG, "ristretto255.Point.set_decode", st);
        }
        // one_way_map: documented to require exactly 64 bytes
        let m0 = n.rng.bytes(64);
        // two 32-byte halves, each mapped separately: boundary values (0, 1, p-1, p, ...) reach the map's exceptional cases
        let bdm = bounds_of!(crrl::ed25519::Scalar, crrl::field::GF25519);
        let mut m = n.structured(out, &m0, &[(32, false), (32, false)], &bdm);
        if m.len() == 64 && n.t.chance(1, 12) {
            // both halves equal (or equal up to the ignored top bit): the two mapped points are equal
            let (a, b) = m.split_at_mut(32);
            b.copy_from_slice(a);
            if n.t.chance(1, 2) {
                b[31] ^= 0x80;
            }
        }
        if m.len() == 64 {
            let r = g!(out, "call.ristretto255.one_way_map", hex(&m), Point::one_way_map(&m).encode());
            out.ev(format_args!("ristretto255 one_way_map -> {:?}", r.map(|e| hex(&e))));
        }
        let sd = n.field(out, &s.encode());
        let r = g!(out, "call.ristretto255.Scalar_decode", hex_abbrev(&sd), Scalar::decode(&sd).map(|x| x.encode()));
        out.ev(format_args!("scalar25519 decode -> {:?}", r.map(|x| x.map(|e| hex(&e)))));
        let r = g!(out, "call.ristretto255.Scalar_decode32", hex_abbrev(&sd), Scalar::decode32(&sd));
        if let Some((v, st)) = r {
            out.status(ENG, "ed25519.Scalar.decode32", st);
            out.ev(format_args!("scalar25519 decode32 -> {:#x} {}", st, hex(&v.encode())));
        }
        let r = g!(out, "call.ristretto255.Scalar_decode_reduce", hex_abbrev(&sd), Scalar::decode_reduce(&sd).encode());
        out.ev(format_args!("scalar25519 decode_reduce({}B) -> {:?}", sd.len(), r.map(|e| hex(&e))));
    }
    {
        use crrl::decaf448::{Point, Scalar};
        let s = Scalar::decode_reduce(&n.rng.bytes(70));
        let p = Point::mulgen(&s);
        let e = p.encode();
        let sp = coord_sign_specials(&(crrl::field::GF448::ZERO - crrl::field::GF448::ONE).encode(), 56, &[]);
        let d = n.pointish(out, &e, &sp);
        let r = g!(out, "call.decaf448.Point_decode", hex_abbrev(&d), Point::decode(&d).map(|p| p.encode()));
        out.ev(format_args!("decaf448 decode {} -> {:?}", hex_abbrev(&d), r.map(|x| x.map(|e| hex(&e)))));
        let r = g!(out, "call.decaf448.Point_set_decode", hex_abbrev(&d), {
            let mut q = Point::NEUTRAL;
            q.set_decode(&d)
        });
        if let Some(st) = r {
            out.status(ENG, "decaf448.Point.set_decode", st);
        }
        let m0 = n.rng.bytes(112);
        let bdm = bounds_of!(crrl::ed448::Scalar, crrl::field::GF448);
        let mut m = n.structured(out, &m0, &[(56, false), (56, false)], &bdm);
        if m.len() == 112 && n.t.chance(1, 12) {
            let (a, b) = m.split_at_mut(56);
            b.copy_from_slice(a);
        }
        if m.len() == 112 {
            let r = g!(out, "call.decaf448.one_way_map", hex(&m), Point::one_way_map(&m).encode());
            out.ev(format_args!("decaf448 one_way_map -> {:?}", r.map(|e| hex(&e))));
        }
        let sd = n.field(out, &s.encode());
        let r = g!(out, "call.decaf448.Scalar_decode", hex_abbrev(&sd), Scalar::decode(&sd).map(|x| x.encode()));
        out.ev(format_args!("scalar448 decode -> {:?}", r.map(|x| x.map(|e| hex(&e)))));
        let r = g!(out, "call.decaf448.Scalar_decode_reduce", hex_abbrev(&sd), Scalar::decode_reduce(&sd).encode());
        out.ev(format_args!("scalar448 decode_reduce({}B) -> {:?}", sd.len(), r.map(|e| hex(&e))));
    }
    {
        // raw curve points (cofactor curves): decode of delivered bytes + status words
        let e = crrl::ed25519::Point::mulgen(&crrl::ed25519::Scalar::decode_reduce(&n.rng.bytes(40))).encode();
        let sp = coord_sign_specials(
            &(crrl::field::GF25519::ZERO - crrl::field::GF25519::ONE).encode(),
            32,
            &<crate::world::suite::Ed25519 as crate::world::suite::Suite>::bad_points(),
        );
        let d = n.pointish(out, &e, &sp);
        let r = g!(out, "call.ed25519.Point_set_decode", hex_abbrev(&d), {
            let mut q = crrl::ed25519::Point::NEUTRAL;
            let st = q.set_decode(&d);
            (st, q.encode(), q.is_in_subgroup(), q.isneutral())
        });
        if let Some((st, enc, sub, neu)) = r {
            out.status(ENG, "ed25519.Point.set_decode", st);
            out.status(ENG, "ed25519.Point.is_in_subgroup", sub);
            out.status(ENG, "ed25519.Point.isneutral", neu);
            out.ev(format_args!("ed25519 point {:#x} {} sub={:#x} neu={:#x}", st, hex(&enc), sub, neu));
        }
        let e = crrl::ed448::Point::mulgen(&crrl::ed448::Scalar::decode_reduce(&n.rng.bytes(70))).encode();
        let sp = coord_sign_specials(
            &(crrl::field::GF448::ZERO - crrl::field::GF448::ONE).encode(),
            57,
            &<crate::world::suite::Ed448 as crate::world::suite::Suite>::bad_points(),
        );
        let d = n.pointish(out, &e, &sp);
        let r = g!(out, "call.ed448.Point_set_decode", hex_abbrev(&d), {
            let mut q = crrl::ed448::Point::NEUTRAL;
            let st = q.set_decode(&d);
            (st, q.encode(), q.is_in_subgroup(), q.isneutral())
        });
        if let Some((st, enc, sub, neu)) = r {
            out.status(ENG, "ed448.Point.set_decode", st);
            out.status(ENG, "ed448.Point.is_in_subgroup", sub);
            out.status(ENG, "ed448.Point.isneutral", neu);
            out.ev(format_args!("ed448 point {:#x} {} sub={:#x} neu={:#x}", st, hex(&enc), sub, neu));
        }
        for which in 0..2 {
            let sk = n.rng.bytes(32);
            let (c, u) = if which == 0 {
                let p = crrl::p256::Point::mulgen(&crrl::p256::Scalar::decode_reduce(&sk));
                (p.encode_compressed().to_vec(), p.encode_uncompressed().to_vec())
            } else {
                let p = crrl::secp256k1::Point::mulgen(&crrl::secp256k1::Scalar::decode_reduce(&sk));
                (p.encode_compressed().to_vec(), p.encode_uncompressed().to_vec())
            };
            let src = if n.t.chance(1, 2) { c } else { u };
            let sp = if which == 0 {
                sec1_specials(&(crrl::field::GFp256::ZERO - crrl::field::GFp256::ONE).encode(), &<crate::world::suite::P256 as crate::world::suite::Suite>::bad_points())
            } else {
                sec1_specials(&(crrl::field::GFsecp256k1::ZERO - crrl::field::GFsecp256k1::ONE).encode(), &<crate::world::suite::Secp256k1 as crate::world::suite::Suite>::bad_points())
            };
            let d = n.pointish(out, &src, &sp);
            if which == 0 {
                let r = g!(out, "call.p256.Point_set_decode", hex_abbrev(&d), {
                    let mut q = crrl::p256::Point::NEUTRAL;
                    let st = q.set_decode(&d);
                    (st, q.encode_compressed())
                });
                if let Some((st, enc)) = r {
                    out.status(ENG, "p256.Point.set_decode", st);
                    out.ev(format_args!("p256 point {:#x} {}", st, hex(&enc)));
                }
            } else {
                let r = g!(out, "call.secp256k1.Point_set_decode", hex_abbrev(&d), {
                    let mut q = crrl::secp256k1::Point::NEUTRAL;
                    let st = q.set_decode(&d);
                    (st, q.encode_compressed())
                });
                if let Some((st, enc)) = r {
                    out.status(ENG, "secp256k1.Point.set_decode", st);
                    out.ev(format_args!("secp256k1 point {:#x} {}", st, hex(&enc)));
                }
            }
        }
    }
}



/// Public-data helpers the verifiers rely on, driven directly: a Schnorr-style relation s*G = R + k*Q in
/// which the *challenge k is delivered* (as in protocols that transmit it rather than recompute it), with
/// structured k (+/- 2^e, +/- 1/2^e, m*2^e, boundary values): `Point::verify_helper_vartime` and
/// `Scalar::split_vartime`. Universal invariant only; the boolean goes into the transcript.
macro_rules! ex_helper {
    ($fname:ident, $m:ident, $name:expr, $slen:expr, $has_split:tt) => {
        fn $fname(n: &mut Net, out: &mut RunOut) {
            use crrl::$m::{Point, Scalar};
            // exponent: half of the time one of the word / half-size boundaries where splitting code changes regime
            const EDGES: [usize; 40] = [0, 1, 2, 31, 32, 33, 63, 64, 65, 95, 96, 97, 111, 112, 113, 120, 124, 126, 127, 128,
                129, 130, 142, 143, 159, 160, 161, 191, 192, 193, 200, 222, 223, 224, 225, 251, 252, 253, 254, 255];
            let e = if n.t.chance(1, 2) { EDGES[n.t.usize(EDGES.len())] % (8 * $slen) } else { n.t.usize(8 * $slen) };
            let mut b = vec![0u8; $slen + 8];
            b[e / 8] = 1u8 << (e % 8);
            if n.t.chance(1, 3) {
                // m * 2^e with a boundary-biased 64-bit m
                let m = [1u64, 3, u64::MAX, 0x8000_0000_0000_0001, n.rng.u64()][n.t.usize(5)];
                let mut acc = 0u128;
                for i in 0..8 {
                    let pos = e / 8 + i;
                    if pos < b.len() {
                        acc += ((m >> (8 * i)) as u8 as u128) << (e % 8);
                        b[pos] = acc as u8;
                        acc >>= 8;
                    }
                }
            }
            let base = Scalar::decode_reduce(&b);
            let k = match n.t.usize(8) {
                0 => base,
                1 => -base,
                2 => Scalar::ONE / base,
                3 => -(Scalar::ONE / base),
                4 => base + Scalar::ONE,
                5 => base - Scalar::ONE,
                6 => Scalar::ONE / (base + Scalar::ONE),
                _ => Scalar::decode_reduce(&n.rng.bytes($slen)),
            };
            let s = Scalar::decode_reduce(&n.rng.bytes($slen));
            let q = Point::mulgen(&Scalar::decode_reduce(&n.rng.bytes($slen)));
            let r = Point::mulgen(&s) - q * k;
            // the three public values travel; whatever arrives and still decodes is used
            let kd = n.field(out, &k.encode());
            let sd = n.field(out, &s.encode());
            let k2 = Scalar::decode(&kd).unwrap_or(k);
            let s2 = Scalar::decode(&sd).unwrap_or(s);
            out.ev(format_args!("{} helper k={} s={}", $name, hex(&k2.encode()), hex(&s2.encode())));
            let v = g!(out, concat!("call.", $name, ".verify_helper_vartime"), format!("k={} s={}", hex(&k2.encode()), hex(&s2.encode())), q.verify_helper_vartime(&r, &s2, &k2));
            out.ev(format_args!("{} verify_helper_vartime(k={}) -> {:?}", $name, hex(&k2.encode()), v));
            yesno(out, "helper", v == Some(true));
            split_call!($has_split, $name, out, k2);
        }
    };
}

macro_rules! split_call {
    (true, $name:expr, $out:expr, $k:expr) => {
        // the split itself is 'one of several admissible values': only its termination is observed
        let r = g!($out, concat!("call.", $name, ".Scalar_split_vartime"), hex(&$k.encode()), { let _ = $k.split_vartime(); });
        $out.ev(format_args!(" split_vartime returned: {}", r.is_some()));
    };
    (false, $name:expr, $out:expr, $k:expr) => {};
    (valid256, $name:expr, $out:expr, $k:expr) => {
        // 256-bit scalar fields: which split comes back is one of several admissible values, *that it is a split*
        // is not: k = (c0 + a*2^128) / (c1 + b*2^128) for some a, b in -2..=2 with a non-zero denominator
        // (the documented contract). The boolean is transcript material; k = 0 is documented to give (0, 1).
        let r = g!($out, concat!("call.", $name, ".Scalar_split_vartime"), hex(&$k.encode()), $k.split_vartime());
        if let Some((c0, c1)) = r {
            let mut tb = [0u8; 32];
            tb[16] = 1;
            let t128 = Scalar::decode_reduce(&tb);
            let (s0, s1) = (Scalar::from_i128(c0), Scalar::from_i128(c1));
            let mut valid = 0u32;
            for a in -2i32..=2 {
                for b in -2i32..=2 {
                    let num = s0 + Scalar::from_i32(a) * t128;
                    let den = s1 + Scalar::from_i32(b) * t128;
                    valid |= ($k * den).equals(num) & !den.iszero();
                }
            }
            let zero_case = if $k.iszero() != 0 { format!(" zero -> ({}, {})", c0, c1) } else { String::new() };
            $out.ev(format_args!(" split_vartime valid {:#x}{}", valid, zero_case));
        } else {
            $out.ev(format_args!(" split_vartime returned: false"));
        }
    };
}

ex_helper!(ex_helper_ed25519, ed25519, "ed25519", 32, valid256);
ex_helper!(ex_helper_p256, p256, "p256", 32, valid256);
ex_helper!(ex_helper_secp256k1, secp256k1, "secp256k1", 32, valid256);
ex_helper!(ex_helper_ristretto255, ristretto255, "ristretto255", 32, valid256);
ex_helper!(ex_helper_ed448, ed448, "ed448", 56, true);
ex_helper!(ex_helper_decaf448, decaf448, "decaf448", 56, true);

fn ex_helper_jq(n: &mut Net, out: &mut RunOut) {
    // jq255e / jq255s / gls254 scalars: split_vartime on delivered structured scalars
    macro_rules! one {
        ($m:ident, $name:expr) => {{
            use crrl::$m::Scalar;
            let e = n.t.usize(256);
            let mut b = vec![0u8; 40];
            b[e / 8] = 1u8 << (e % 8);
            let base = Scalar::decode_reduce(&b);
            let k = match n.t.usize(7) {
                0 => base,
                1 => -base,
                2 => Scalar::ONE / base,
                3 => -(Scalar::ONE / base),
                4 => base - base,
                5 => base - Scalar::ONE,
                _ => base + Scalar::ONE,
            };
            let kd = n.field(out, &k.encode());
            let k2 = Scalar::decode(&kd).unwrap_or(k);
            out.ev(format_args!("{} split_vartime({})", $name, hex(&k2.encode())));
            split_call!(valid256, $name, out, k2);
        }};
    }
    one!(jq255e, "jq255e");
    one!(jq255s, "jq255s");
    one!(gls254, "gls254");
}

/// FROST wire decoders and verifiers fed with whatever the network delivers (any length, bytes of other
/// protocols, other encodings of the same point). Universal invariant only.
fn ex_frost<S: crate::world::suite::Suite>(n: &mut Net, out: &mut RunOut) {
    let gsk = S::gsk_generate(&mut n.rng);
    let gpk = S::gsk_public(gsk);
    let gpk_enc = S::gpk_encode(gpk);
    let nn = 2 + n.t.usize(2);
    let (shares, vss) = S::split(&mut n.rng, gsk, 2, nn);
    let (nonce1, comm1) = S::share_commit(shares[0], &mut n.rng);
    let (_n2, comm2) = S::share_commit(shares[1], &mut n.rng);
    let list = vec![comm1, comm2];
    let msg = { let l = n.t.usize(100); n.rng.bytes(l) };
    let ss = S::share_sign(shares[0], nonce1, comm1, &msg, &list);
    let sig = S::gsk_sign(gsk, &mut n.rng, &msg);
    let spk = S::share_public(shares[0]);
    out.ev(format_args!("frost {} gpk={} list={}", S::NAME, hex(&gpk_enc), hex_abbrev(&S::comm_encode_list(&list))));
    macro_rules! feed {
        ($label:expr, $bytes:expr, $dec:expr) => {{
            let d = n.field(out, &$bytes);
            let r = g!(out, $label, hex_abbrev(&d), $dec(&d[..]).is_some());
            out.ev(format_args!(" {} ({}B) -> {:?}", $label, d.len(), r));
            yesno(out, $label, r == Some(true));
            d
        }};
    }
    feed!("call.frost.share_decode", S::share_encode(shares[0]), S::share_decode);
    feed!("call.frost.vss_decode_list", S::vss_encode_list(&vss), S::vss_decode_list);
    feed!("call.frost.comm_decode", S::comm_encode(comm1), S::comm_decode);
    let dl = feed!("call.frost.comm_decode_list", S::comm_encode_list(&list), S::comm_decode_list);
    let dss = match ss {
        Some(x) => feed!("call.frost.sigshare_decode", S::sigshare_encode(x), S::sigshare_decode),
        None => Vec::new(),
    };
    let dsig = feed!("call.frost.sig_decode", S::sig_encode(sig), S::sig_decode);
    feed!("call.frost.gsk_decode", S::gsk_encode(gsk), S::gsk_decode);
    feed!("call.frost.spk_decode", S::spk_encode(spk), S::spk_decode);
    feed!("call.frost.nonce_decode", S::nonce_encode(nonce1), S::nonce_decode);
    let dg = feed!("call.frost.gpk_decode", gpk_enc, S::gpk_decode);
    // other encodings of the same group element
    for alt in S::alt_point_encodings(&gpk_enc) {
        out.fault("fault.rawmangle.alternate_point_format");
        let r = g!(out, "call.frost.gpk_decode", hex_abbrev(&alt), S::gpk_decode(&alt).is_some());
        out.ev(format_args!(" gpk alt format ({}B) -> {:?}", alt.len(), r));
    }
    // verification with whatever decoded
    let k = match g!(out, "call.frost.gpk_decode", hex_abbrev(&dg), S::gpk_decode(&dg)) {
        Some(Some(k)) => k,
        _ => gpk,
    };
    let md = n.field(out, &msg);
    let v = g!(out, "call.frost.verify_esig", format!("{} {}", hex_abbrev(&dsig), hex_abbrev(&md)), S::gpk_verify_esig(k, &dsig, &md));
    out.ev(format_args!(" verify_esig -> {:?}", v));
    yesno(out, "frost.verify_esig", v == Some(true));
    if let (Some(Some(l)), Some(Some(x))) = (
        g!(out, "call.frost.comm_decode_list", hex_abbrev(&dl), S::comm_decode_list(&dl)),
        g!(out, "call.frost.sigshare_decode", hex_abbrev(&dss), S::sigshare_decode(&dss)),
    ) {
        let v = g!(out, "call.frost.verify_signature_share", hex_abbrev(&dss), S::spk_verify_share(spk, x, &l, k, &md));
        out.ev(format_args!(" verify_signature_share -> {:?}", v));
        yesno(out, "frost.verify_share", v == Some(true));
    }
}

pub fn run(t: &mut Tape, tier: Tier, out: &mut RunOut) {
    let rng = SimRng::new(t.seed64());
    let rate = [0u64, 150, 400, 800][t.weighted(&[1, 3, 3, 2])];
    let nex = 2 + t.usize(if tier == Tier::Thorough { 10 } else { 5 });
    let mut n = Net { t, rng, junkyard: Vec::new(), rate };
    out.summary = format!("exchange world: {} exchanges, per-field corruption rate {}/1000", nex, rate);
    for i in 0..nex {
        let which = n.t.usize(14);
        out.sched("exchange", which as u32, i as u32);
        match which {
            0 => ex_ed25519(&mut n, out, tier),
            1 => ex_ed448(&mut n, out),
            2 => ex_p256(&mut n, out, tier),
            3 => ex_secp256k1(&mut n, out),
            4 => ex_jq255e(&mut n, out),
            5 => ex_jq255s(&mut n, out),
            6 => ex_gls254(&mut n, out),
            7 => ex_x25519(&mut n, out),
            8 => ex_x448(&mut n, out),
            9 => ex_groups(&mut n, out),
            10 | 11 => match n.t.usize(7) {
                0 => ex_helper_ed25519(&mut n, out),
                1 => ex_helper_p256(&mut n, out),
                2 => ex_helper_secp256k1(&mut n, out),
                3 => ex_helper_ristretto255(&mut n, out),
                4 => ex_helper_ed448(&mut n, out),
                5 => ex_helper_decaf448(&mut n, out),
                _ => ex_helper_jq(&mut n, out),
            },
            _ => match n.t.usize(5) {
                0 => ex_frost::<crate::world::suite::Ed25519>(&mut n, out),
                1 => ex_frost::<crate::world::suite::Ristretto255>(&mut n, out),
                2 => ex_frost::<crate::world::suite::P256>(&mut n, out),
                3 => ex_frost::<crate::world::suite::Secp256k1>(&mut n, out),
                _ => ex_frost::<crate::world::suite::Ed448>(&mut n, out),
            },
        }
        out.ops_completed += 1;
    }
}
