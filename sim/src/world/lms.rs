//! Sim B — the LMS signing service (property C16; feeds C18 and C19).
//!
//! One signing service owns an LMS private key (volatile copy in RAM, durable
//! copy on the simulated disk) and follows the protocol the module
//! documentation prescribes: sign on the RAM copy, write the new state, sync,
//! and only then release the signature. Clients keep asking past exhaustion.
//! The service crashes at tape-chosen points (biased to the windows between
//! sign / write / sync / release) and restarts from the durable copy; the disk
//! refuses writes and syncs. Every released signature travels to verifier
//! nodes through a lossy, duplicating, reordering, corrupting network.
//! Oracles: an executable RFC 8554 reference model (own hashes) checked op by
//! op, index discipline read through `{:?}`, and global no-reuse over the
//! whole history.

use crate::core::{guard_c19, RunOut};
use crate::des::{CopyKind, NetCfg, Queue};
use crate::refimpl::lms as rl;
use crate::rng::SimRng;
use crate::tape::Tape;
use crate::util::{hex, hex_abbrev};
use std::fmt::Debug;

pub trait LmsSet {
    const NAME: &'static str;
    const PRM: rl::Params;
    type Sk: Copy + Debug;
    type Pk: Copy + Debug;
    fn generate(rng: &mut SimRng) -> Self::Sk;
    fn public(sk: Self::Sk) -> Self::Pk;
    fn sign(sk: &mut Self::Sk, rng: &mut SimRng, msg: &[u8]) -> Option<Vec<u8>>;
    fn verify(pk: Self::Pk, sig: &[u8], msg: &[u8]) -> bool;
}

macro_rules! lms_set {
    ($t:ident, $m:ident, $name:expr, $prm:expr) => {
        pub struct $t;
        impl LmsSet for $t {
            const NAME: &'static str = $name;
            const PRM: rl::Params = $prm;
            type Sk = crrl::lms::$m::PrivateKey;
            type Pk = crrl::lms::$m::PublicKey;
            fn generate(rng: &mut SimRng) -> Self::Sk {
                crrl::lms::$m::PrivateKey::generate(rng)
            }
            fn public(sk: Self::Sk) -> Self::Pk {
                sk.compute_public()
            }
            fn sign(sk: &mut Self::Sk, rng: &mut SimRng, msg: &[u8]) -> Option<Vec<u8>> {
                sk.sign(rng, msg).map(|s| s.to_vec())
            }
            fn verify(pk: Self::Pk, sig: &[u8], msg: &[u8]) -> bool {
                pk.verify(sig, msg)
            }
        }
    };
}

lms_set!(Sha256M32, LMS_SHA256_M32_H5_SHA256_N32_W8, "sha256_m32_h5", rl::SHA256_M32_H5);
lms_set!(Sha256M24, LMS_SHA256_M24_H5_SHA256_N24_W8, "sha256_m24_h5", rl::SHA256_M24_H5);
lms_set!(ShakeM32, LMS_SHAKE_M32_H5_SHAKE_N32_W8, "shake_m32_h5", rl::SHAKE_M32_H5);
lms_set!(ShakeM24, LMS_SHAKE_M24_H5_SHAKE_N24_W8, "shake_m24_h5", rl::SHAKE_M24_H5);

/// `current_leaf` as shown by `#[derive(Debug)]` on the private key.
pub fn debug_current_leaf(dbg: &str) -> Option<u32> {
    let k = "current_leaf: ";
    let i = dbg.find(k)? + k.len();
    let rest = &dbg[i..];
    let end = rest.find(|c: char| !c.is_ascii_digit())?;
    rest[..end].parse().ok()
}

/// Parse a `[1, 2, 3]` byte array that follows `key` in a Debug rendering.
pub fn debug_bytes(dbg: &str, key: &str) -> Option<Vec<u8>> {
    let i = dbg.find(key)? + key.len();
    let rest = &dbg[i..];
    let a = rest.find('[')?;
    let b = rest.find(']')?;
    rest[a + 1..b].split(',').map(|x| x.trim().parse::<u8>().ok()).collect()
}

const MS: u64 = 1_000;
const SERVICE: usize = 0;

enum Ev {
    Request(u32),
    /// Service pipeline step for request r: 0 sign, 1 write, 2 sync, 3 release.
    Step(u32, u8, u32),
    Crash,
    Restart,
    DeliverSig { to: usize, req: u32, sig: Vec<u8>, msg: Vec<u8>, orig_sig: Vec<u8>, orig_msg: Vec<u8>, how: &'static str },
    Heal,
}

const MANGLE_KINDS: [&str; 15] = [
    "fault.lmsmangle.bitflip_anywhere",
    "fault.lmsmangle.bitflip_q",
    "fault.lmsmangle.bitflip_ots_type",
    "fault.lmsmangle.bitflip_C",
    "fault.lmsmangle.bitflip_chain_value",
    "fault.lmsmangle.bitflip_key_type",
    "fault.lmsmangle.bitflip_path_node",
    "fault.lmsmangle.truncate",
    "fault.lmsmangle.extend",
    "fault.lmsmangle.wrong_message",
    "fault.lmsmangle.splice_from_other_signature",
    "fault.lmsmangle.q_out_of_range",
    "fault.lmsmangle.typecode_of_another_parameter_set",
    "fault.lmsmangle.forger_advances_a_chain",
    "fault.lmsmangle.forger_relabels_leaf_with_that_leafs_path",
];

fn mangle_sig(t: &mut Tape, rng: &mut SimRng, prm: &rl::Params, id: &[u8], sig: &[u8], msg: &[u8], others: &[(Vec<u8>, Vec<u8>)]) -> (Vec<u8>, Vec<u8>, &'static str) {
    let (p, _) = prm.p_ls();
    let n = prm.n;
    let o_c = 8;
    let o_y = 8 + n;
    let o_kt = 8 + n * (p + 1);
    let o_path = o_kt + 4;
    let mut s = sig.to_vec();
    let mut m = msg.to_vec();
    let mut kind = t.weighted(&[4, 2, 1, 2, 4, 1, 3, 2, 2, 2, 3, 1, 2, 3, 2]);
    let flip = |t: &mut Tape, s: &mut Vec<u8>, lo: usize, hi: usize| {
        if hi > lo && hi <= s.len() {
            let i = lo + t.usize(hi - lo);
            s[i] ^= 1 << t.usize(8);
        }
    };
    for _ in 0..3 {
        match kind {
            0 => {
                let l = s.len();
                flip(t, &mut s, 0, l)
            }
            1 => flip(t, &mut s, 0, 4),
            2 => flip(t, &mut s, 4, 8),
            3 => flip(t, &mut s, o_c, o_y),
            4 => {
                let i = t.usize(p);
                flip(t, &mut s, o_y + i * n, o_y + (i + 1) * n)
            }
            5 => flip(t, &mut s, o_kt, o_kt + 4),
            6 => {
                let i = t.usize(prm.h);
                flip(t, &mut s, o_path + i * prm.m, o_path + (i + 1) * prm.m)
            }
            7 => {
                let cut = match t.usize(3) {
                    0 => 1,
                    1 => prm.m,
                    _ => 1 + t.usize(s.len()),
                };
                let l = s.len();
                s.truncate(l - cut.min(l));
            }
            8 => {
                let add = match t.usize(3) {
                    0 => 1,
                    1 => prm.m,
                    _ => 1 + t.usize(5000),
                };
                s.extend_from_slice(&rng.bytes(add));
            }
            9 => {
                if m.is_empty() || t.chance(1, 3) {
                    m.push(rng.bytes(1)[0]);
                } else {
                    let l = m.len();
                    match t.usize(3) {
                        0 => {
                            let i = t.usize(l);
                            m[i] ^= 1 << t.usize(8);
                        }
                        1 => m.truncate(l - 1),
                        _ => m = rng.bytes(t.usize(64)),
                    }
                }
            }
            10 => {
                let c: Vec<&(Vec<u8>, Vec<u8>)> = others.iter().filter(|o| o.0 != sig && o.0.len() == sig.len()).collect();
                if !c.is_empty() {
                    let o = c[t.usize(c.len())];
                    match t.usize(5) {
                        0 => s[..4].copy_from_slice(&o.0[..4]),                 // q of another signature
                        1 => s[o_path..].copy_from_slice(&o.0[o_path..]),        // its authentication path
                        2 => s[o_y..o_kt].copy_from_slice(&o.0[o_y..o_kt]),      // its chain values
                        3 => s[o_c..o_y].copy_from_slice(&o.0[o_c..o_y]),        // its randomizer
                        _ => m = o.1.clone(),                                    // this signature, that message
                    }
                }
            }
            13 => {
                // constructed, not random: chain i (message digit or checksum digit) advanced by 1..k hash steps
                let i = if t.chance(1, 3) { p - 1 - t.usize(2) } else { t.usize(p) };
                let steps = [1usize, 1, 2, 255][t.usize(4)];
                if let Some(f) = rl::advance_chain(prm, id, msg, sig, i, steps) {
                    s = f;
                }
            }
            14 => {
                // q and the authentication path both taken from another genuine signature of the same key
                let c: Vec<&(Vec<u8>, Vec<u8>)> = others.iter().filter(|o| o.0 != sig && o.0.len() == sig.len()).collect();
                if !c.is_empty() {
                    let o = c[t.usize(c.len())];
                    s[..4].copy_from_slice(&o.0[..4]);
                    s[o_path..].copy_from_slice(&o.0[o_path..]);
                }
            }
            12 => {
                // a registered typecode of another LMS / LM-OTS parameter set (RFC 8554 and SP 800-208 registries)
                if t.chance(1, 2) {
                    let tc = [0x05u32, 0x06, 0x07, 0x0a, 0x0b, 0x0f, 0x10, 0x14, 0x15, 0x18][t.usize(10)];
                    s[o_kt..o_kt + 4].copy_from_slice(&tc.to_be_bytes());
                } else {
                    let tc = [0x01u32, 0x02, 0x03, 0x04, 0x05, 0x08, 0x09, 0x0c, 0x0d, 0x10][t.usize(10)];
                    s[4..8].copy_from_slice(&tc.to_be_bytes());
                }
            }
            _ => {
                let q = (1u32 << prm.h) + t.choose(1 << 20) as u32;
                let q = if t.chance(1, 4) { 0xFFFF_FFFF } else { q };
                s[..4].copy_from_slice(&q.to_be_bytes());
            }
        }
        if s != sig || m != msg {
            return (s, m, MANGLE_KINDS[kind]);
        }
        kind = 0;
    }
    s.push(0);
    (s, m, MANGLE_KINDS[8])
}

pub struct Cfg {
    pub thorough: bool,
}

pub fn run<L: LmsSet, L2: LmsSet>(t: &mut Tape, _cfg: &Cfg, out: &mut RunOut) {
    let eng = format!("lms/{}", L::NAME);
    let prm = L::PRM;
    let mut rng = SimRng::new(t.seed64());
    let mut harness_rng = SimRng::new(t.seed64());
    rng.tap = Some(Vec::new());

    // ---- key generation (the simulator owns the RNG, so it knows I and SEED)
    let sk0 = match guard_c19(out, &eng, "call.lms.generate", || String::new(), || L::generate(&mut rng)) {
        Some(k) => k,
        None => return,
    };
    let tap = rng.tap.take().unwrap();
    rng.tap = Some(Vec::new());
    if tap.len() != 2 || tap[0].len() != 16 || tap[1].len() != prm.m {
        out.violate("C16", format!("{}/model:keygen_rng_usage", eng), format!("generate() drew {:?} bytes from the RNG, expected [16, {}]", tap.iter().map(|x| x.len()).collect::<Vec<_>>(), prm.m));
        return;
    }
    let (id, seed) = (tap[0].clone(), tap[1].clone());
    let model = rl::RefKey::generate(prm, &id, &seed);
    let pk = L::public(sk0);
    let pkd = format!("{:?}", pk);
    let (pk_i, pk_t1) = (debug_bytes(&pkd, "I: "), debug_bytes(&pkd, "T1: "));
    out.ev(format_args!("keygen {} I={} root={}", L::NAME, hex(&id), hex(model.root())));
    if pk_i.as_deref() != Some(&id[..]) || pk_t1.as_deref() != Some(model.root()) {
        out.violate(
            "C16",
            format!("{}/model:public_key", eng),
            format!("public key is {} but RFC 8554 key generation from I={} SEED={} gives root {}", pkd, hex(&id), hex(&seed), hex(model.root())),
        );
    }
    if debug_current_leaf(&format!("{:?}", sk0)) != Some(0) {
        out.violate("C16", format!("{}/index:fresh_key_not_at_zero", eng), format!("{:?}", debug_current_leaf(&format!("{:?}", sk0))));
    }

    // ---- configuration of this life
    let nreq = 33 + t.usize(13) as u32; // always crosses exhaustion and keeps asking
    let heal_at = (150 + t.choose(500)) * MS;
    let faulty = t.chance(5, 6);
    let net = if faulty { NetCfg::draw(t, heal_at) } else { NetCfg { heal_at: 0, ..NetCfg::none() } };
    let crash_rate = if faulty { [0u64, 30, 100, 250][t.usize(4)] } else { 0 };
    let disk_err_rate = if faulty { [0u64, 0, 50, 200][t.usize(4)] } else { 0 };
    let rng_repeat_rate = if faulty { [0u64, 0, 100, 500][t.usize(4)] } else { 0 };
    let nverifiers = 1 + t.usize(3);
    out.summary = format!(
        "LMS {} life: {} sign requests, {} verifiers, net drop/dup/reorder/corrupt={}/{}/{}/{} per 1000, crash {} disk_err {} rng_repeat {} heal_at {}ms",
        L::NAME, nreq, nverifiers, net.drop, net.dup, net.reorder, net.corrupt, crash_rate, disk_err_rate, rng_repeat_rate, heal_at / MS
    );

    // ---- foreign verifiers (a quarter of the lives): another key of the same parameter set, and a key of
    // another parameter set. Nothing signed by this life's key may verify under either.
    let foreign: Option<(L::Pk, Vec<u8>, Vec<u8>, L2::Pk)> = if t.chance(1, 4) {
        let mut frng = SimRng::new(harness_rng.u64());
        frng.tap = Some(Vec::new());
        let fk = L::generate(&mut frng);
        let tap = frng.tap.take().unwrap();
        let fmodel = rl::RefKey::generate(prm, &tap[0], &tap[1]);
        let fk2 = L2::generate(&mut frng);
        out.probe("probe.lms.foreign_verifiers_present");
        Some((L::public(fk), tap[0].clone(), fmodel.root().to_vec(), L2::public(fk2)))
    } else {
        None
    };

    // ---- service state
    let mut ram: Option<L::Sk> = Some(sk0);
    let mut durable: L::Sk = sk0; // the initial key is stored before service starts
    let mut pending: Option<L::Sk> = None; // written, not yet synced
    let mut model_ram_q: u32 = 0;
    let mut model_durable_q: u32 = 0;
    let mut model_pending_q: Option<u32> = None;
    let mut epoch: u32 = 0;
    let mut up = true;
    // in-flight request state: (req, signature, message)
    let mut inflight: Option<(u32, Vec<u8>, Vec<u8>)> = None;
    let mut queue_reqs: Vec<u32> = Vec::new();
    let mut msgs: Vec<Vec<u8>> = Vec::new();
    for _ in 0..nreq {
        let l = match t.usize(4) {
            0 => 0,
            1 => t.usize(16),
            _ => t.usize(1024),
        };
        msgs.push(harness_rng.bytes(l));
    }
    let mut released: Vec<(u32, u32)> = Vec::new(); // (leaf index, request) in release order
    let mut released_sigs: Vec<(Vec<u8>, Vec<u8>)> = Vec::new();
    let mut exhausted_seen = 0u32;
    let mut leaves_signed = [false; 64];
    let mut healed = !faulty;
    // bounded liveness: a request that first arrives after the faults stopped must be answered (a released
    // signature, or None from an exhausted key) before the run ends
    let mut first_seen: Vec<Option<u64>> = vec![None; nreq as usize];
    let mut answered: Vec<bool> = vec![false; nreq as usize];

    let mut q: Queue<Ev> = Queue::new();
    let mut at = 5 * MS;
    for r in 0..nreq {
        at += 1 + t.choose(12 * MS);
        q.at(at, Ev::Request(r));
    }
    if faulty {
        q.at(heal_at, Ev::Heal);
    }
    let mut steps = 0u64;
    while let Some((_seq, ev)) = q.pop() {
        steps += 1;
        out.sim_time_us = q.now;
        if steps > 100_000 {
            break;
        }
        match ev {
            Ev::Heal => {
                healed = true;
                out.ev(format_args!("HEAL"));
                if !up {
                    q.after(MS, Ev::Restart);
                }
            }
            Ev::Request(r) => {
                out.sched("req", r, 0);
                if first_seen[r as usize].is_none() {
                    first_seen[r as usize] = Some(q.now);
                }
                if !up || inflight.is_some() {
                    queue_reqs.push(r);
                    continue;
                }
                inflight = Some((r, Vec::new(), msgs[r as usize].clone()));
                q.after(200, Ev::Step(r, 0, epoch));
                // crash window A: before sign
                if !healed && crash_rate > 0 && t.chance(crash_rate / 4, 1000) {
                    out.fault("fault.crash.before_sign");
                    q.after(100, Ev::Crash);
                }
            }
            Ev::Step(r, stage, ep) => {
                if !up || ep != epoch {
                    continue;
                }
                match stage {
                    0 => {
                        // ---- sign on the RAM copy
                        let mut sk = ram.unwrap();
                        let before = format!("{:?}", sk);
                        let q_before = debug_current_leaf(&before);
                        if q_before != Some(model_ram_q) {
                            out.violate(
                                "C16",
                                format!("{}/index:state_before_sign", eng),
                                format!("current_leaf shows {:?} before sign, model says {}", q_before, model_ram_q),
                            );
                        }
                        if !healed && rng_repeat_rate > 0 && t.chance(rng_repeat_rate, 1000) {
                            rng.repeat_next = true;
                            out.fault("fault.rng.repeat_randomizer");
                        }
                        rng.tap = Some(Vec::new());
                        let msg = msgs[r as usize].clone();
                        let res = guard_c19(out, &eng, "call.lms.sign", || format!("msg {}", hex_abbrev(&msg)), || L::sign(&mut sk, &mut rng, &msg));
                        let res = match res {
                            Some(x) => x,
                            None => {
                                inflight = None;
                                continue;
                            }
                        };
                        let tap = rng.tap.take().unwrap_or_default();
                        let after = format!("{:?}", sk);
                        let q_after = debug_current_leaf(&after);
                        out.sched("sign", r, res.is_some() as u32);
                        match res {
                            None => {
                                out.ev(format_args!("req{} sign -> None (leaf {:?})", r, q_before));
                                exhausted_seen += 1;
                                out.probe("probe.lms.exhausted_key_asked_again");
                                if model_ram_q < (1 << prm.h) {
                                    out.violate(
                                        "C16",
                                        format!("{}/model:sign_none_before_exhaustion", eng),
                                        format!("sign returned None at leaf {} (2^h = {})", model_ram_q, 1 << prm.h),
                                    );
                                }
                                if after != before {
                                    out.violate(
                                        "C16",
                                        format!("{}/index:state_changed_by_failed_sign", eng),
                                        format!("sign returned None but the key state changed: current_leaf {:?} -> {:?}", q_before, q_after),
                                    );
                                }
                                if !tap.is_empty() {
                                    out.probe("probe.lms.failed_sign_consumed_randomness");
                                }
                                ram = Some(sk);
                                inflight = None;
                                answered[r as usize] = true;
                                out.ops_completed += 1;
                                if let Some(nr) = queue_reqs.first().cloned() {
                                    queue_reqs.remove(0);
                                    q.after(100, Ev::Request(nr));
                                }
                            }
                            Some(sig) => {
                                let lq = if sig.len() >= 4 { u32::from_be_bytes([sig[0], sig[1], sig[2], sig[3]]) } else { u32::MAX };
                                out.ev(format_args!("req{} sign -> leaf {} sig {}", r, lq, hex_abbrev(&sig)));
                                if model_ram_q >= (1 << prm.h) {
                                    out.violate(
                                        "C16",
                                        format!("{}/model:sign_after_exhaustion", eng),
                                        format!("sign produced a signature with leaf {} after all {} leaves were used", lq, 1 << prm.h),
                                    );
                                } else {
                                    if lq != model_ram_q {
                                        out.violate(
                                            "C16",
                                            format!("{}/index:wrong_leaf_in_signature", eng),
                                            format!("signature carries leaf {} but the key was at {}", lq, model_ram_q),
                                        );
                                    }
                                    if q_after != Some(model_ram_q + 1) {
                                        out.violate(
                                            "C16",
                                            format!("{}/index:state_not_advanced_before_return", eng),
                                            format!("after signing with leaf {} the key state shows current_leaf {:?}, expected {}", lq, q_after, model_ram_q + 1),
                                        );
                                    }
                                    // byte-exact comparison with the RFC 8554 model
                                    if tap.len() == 1 && tap[0].len() == prm.n {
                                        let want = model.sign(model_ram_q, &tap[0], &msg);
                                        if sig != want {
                                            let firstdiff = sig.iter().zip(want.iter()).position(|(a, b)| a != b).unwrap_or(sig.len().min(want.len()));
                                            out.violate(
                                                "C16",
                                                format!("{}/model:signature_bytes", eng),
                                                format!(
                                                    "signature for leaf {} differs from the RFC 8554 model at byte {} (lengths {} / {}): got {} want {}",
                                                    model_ram_q, firstdiff, sig.len(), want.len(), hex_abbrev(&sig), hex_abbrev(&want)
                                                ),
                                            );
                                        }
                                    } else {
                                        out.violate(
                                            "C16",
                                            format!("{}/model:sign_rng_usage", eng),
                                            format!("sign drew {:?} bytes from the RNG, expected one draw of {}", tap.iter().map(|x| x.len()).collect::<Vec<_>>(), prm.n),
                                        );
                                    }
                                    // own signature verifies right away (model and library)
                                    let v = guard_c19(out, &eng, "call.lms.verify", || hex_abbrev(&sig), || L::verify(pk, &sig, &msg)).unwrap_or(false);
                                    if !v || !rl::verify(&prm, &id, model.root(), &msg, &sig) {
                                        out.violate(
                                            "C16",
                                            format!("{}/complete:own_signature_rejected", eng),
                                            format!("signature for leaf {} on {} does not verify (lib={})", lq, hex_abbrev(&msg), v),
                                        );
                                    }
                                    if (lq as usize) < 64 {
                                        leaves_signed[lq as usize] = true;
                                    }
                                    model_ram_q += 1;
                                }
                                ram = Some(sk);
                                inflight = Some((r, sig, msg));
                                q.after(200, Ev::Step(r, 1, epoch));
                                if !healed && crash_rate > 0 && t.chance(crash_rate, 1000) {
                                    out.fault("fault.crash.after_sign_before_write");
                                    q.after(100, Ev::Crash);
                                }
                            }
                        }
                    }
                    1 => {
                        // ---- write the new state (volatile until sync)
                        if !healed && disk_err_rate > 0 && t.chance(disk_err_rate, 1000) {
                            // write refused (disk full / EIO): the signature must not be released;
                            // the index is burnt in RAM, which is allowed.
                            out.fault("fault.disk.write_error");
                            out.ev(format_args!("req{} write error: signature withheld", r));
                            out.probe("probe.lms.index_burnt");
                            inflight = None;
                            if let Some(nr) = queue_reqs.first().cloned() {
                                queue_reqs.remove(0);
                                q.after(100, Ev::Request(nr));
                            }
                            continue;
                        }
                        pending = ram;
                        model_pending_q = Some(model_ram_q);
                        q.after(200, Ev::Step(r, 2, epoch));
                        if !healed && crash_rate > 0 && t.chance(crash_rate, 1000) {
                            out.fault("fault.crash.after_write_before_sync");
                            q.after(100, Ev::Crash);
                        }
                    }
                    2 => {
                        // ---- sync
                        if !healed && disk_err_rate > 0 && t.chance(disk_err_rate, 1000) {
                            out.fault("fault.disk.sync_error");
                            out.ev(format_args!("req{} sync error: signature withheld", r));
                            out.probe("probe.lms.index_burnt");
                            pending = None;
                            model_pending_q = None;
                            inflight = None;
                            if let Some(nr) = queue_reqs.first().cloned() {
                                queue_reqs.remove(0);
                                q.after(100, Ev::Request(nr));
                            }
                            continue;
                        }
                        if let Some(p) = pending.take() {
                            durable = p;
                            model_durable_q = model_pending_q.take().unwrap();
                        }
                        q.after(200, Ev::Step(r, 3, epoch));
                        if !healed && crash_rate > 0 && t.chance(crash_rate, 1000) {
                            out.fault("fault.crash.after_sync_before_release");
                            q.after(100, Ev::Crash);
                        }
                    }
                    _ => {
                        // ---- release to the network
                        let (rr, sig, msg) = inflight.take().unwrap();
                        let lq = u32::from_be_bytes([sig[0], sig[1], sig[2], sig[3]]);
                        out.ev(format_args!("req{} RELEASE leaf {}", rr, lq));
                        released.push((lq, rr));
                        answered[rr as usize] = true;
                        released_sigs.push((sig.clone(), msg.clone()));
                        out.ops_completed += 1;
                        out.probe("probe.lms.signature_released");
                        for v in 0..nverifiers {
                            let mut fired: Vec<&'static str> = Vec::new();
                            let plan = net.plan(t, q.now, &mut |k| fired.push(k));
                            for k in fired {
                                out.fault(k);
                            }
                            // every release is also delivered in one deliberately altered form
                            let mut copies = plan;
                            if v == 0 {
                                copies.push((2 * MS, CopyKind::Corrupt));
                            }
                            for (delay, ck) in copies {
                                let (s2, m2, how) = match ck {
                                    CopyKind::Clean | CopyKind::Stale => (sig.clone(), msg.clone(), "intact"),
                                    CopyKind::Corrupt => {
                                        let (a, b, k) = mangle_sig(t, &mut harness_rng, &prm, &id, &sig, &msg, &released_sigs);
                                        out.fault(k);
                                        (a, b, k)
                                    }
                                };
                                q.after(delay, Ev::DeliverSig { to: 1 + v, req: rr, sig: s2, msg: m2, orig_sig: sig.clone(), orig_msg: msg.clone(), how });
                            }
                        }
                        if !healed && crash_rate > 0 && t.chance(crash_rate / 2, 1000) {
                            out.fault("fault.crash.after_release");
                            q.after(100, Ev::Crash);
                        }
                        if let Some(nr) = queue_reqs.first().cloned() {
                            queue_reqs.remove(0);
                            q.after(100, Ev::Request(nr));
                        }
                    }
                }
            }
            Ev::Crash => {
                if !up {
                    continue;
                }
                up = false;
                epoch += 1;
                out.ev(format_args!("CRASH service (ram leaf {}, durable leaf {})", model_ram_q, model_durable_q));
                out.sched("crash", SERVICE as u32, 0);
                if model_ram_q != model_durable_q {
                    out.probe("probe.lms.index_burnt");
                }
                ram = None;
                pending = None;
                model_pending_q = None;
                if let Some((r, _, _)) = inflight.take() {
                    // the client will ask again later
                    queue_reqs.insert(0, r);
                }
                let down = 2 * MS + t.choose(40 * MS);
                q.after(down, Ev::Restart);
            }
            Ev::Restart => {
                if up {
                    continue;
                }
                up = true;
                // only the durable copy survives
                ram = Some(durable);
                model_ram_q = model_durable_q;
                let shown = debug_current_leaf(&format!("{:?}", durable));
                out.ev(format_args!("RESTART service at durable leaf {}", model_durable_q));
                out.probe("probe.lms.service_restarted");
                if shown != Some(model_durable_q) {
                    out.violate(
                        "C16",
                        format!("{}/index:restored_state", eng),
                        format!("restored key shows current_leaf {:?}, the durable copy was taken at {}", shown, model_durable_q),
                    );
                }
                if let Some(nr) = queue_reqs.first().cloned() {
                    queue_reqs.remove(0);
                    q.after(500, Ev::Request(nr));
                }
            }
            Ev::DeliverSig { to, req, sig, msg, orig_sig, orig_msg, how } => {
                out.sched("vfy", to as u32, req);
                let intact = sig == orig_sig && msg == orig_msg;
                let lib = guard_c19(out, &eng, "call.lms.verify", || format!("sig {} msg {}", hex_abbrev(&sig), hex_abbrev(&msg)), || L::verify(pk, &sig, &msg));
                let lib = match lib {
                    Some(x) => x,
                    None => continue,
                };
                let mdl = rl::verify(&prm, &id, model.root(), &msg, &sig);
                out.ev(format_args!("verifier{} req{} {} -> lib {} model {}", to, req, how, lib, mdl));
                out.probe("probe.lms.delivery_verified");
                if !intact && sig.len() == prm.sig_len() {
                    out.probe("probe.lms.altered_right_length_signature_reached_verifier");
                }
                if let Some((fpk, fid, froot, fpk2)) = foreign.as_ref() {
                    // same bytes under a foreign key of the same set, and under a key of another parameter set
                    let f1 = guard_c19(out, &eng, "call.lms.verify", || format!("foreign key; sig {}", hex_abbrev(&sig)), || L::verify(*fpk, &sig, &msg)).unwrap_or(false);
                    let m1 = rl::verify(&prm, fid, froot, &msg, &sig);
                    let f2 = guard_c19(out, &eng, "call.lms.verify", || format!("other parameter set; sig {}", hex_abbrev(&sig)), || L2::verify(*fpk2, &sig, &msg)).unwrap_or(false);
                    out.ev(format_args!("verifier{} req{} foreign-key -> {} other-set -> {}", to, req, f1, f2));
                    if f1 || m1 || f2 {
                        out.violate(
                            "C16",
                            format!("{}/reject:accepted_under_foreign_key", eng),
                            format!("a signature made by one key verifies under another: same-set foreign key lib={} model={}, other parameter set {} lib={}; sig {}", f1, m1, L2::NAME, f2, hex_abbrev(&sig)),
                        );
                    }
                }
                if lib != mdl {
                    out.violate(
                        "C16",
                        format!("{}/model:verify_disagrees", eng),
                        format!("verify({}) : library says {}, RFC 8554 model says {}; sig {} msg {}", how, lib, mdl, hex(&sig), hex_abbrev(&msg)),
                    );
                }
                if intact && !lib {
                    out.violate("C16", format!("{}/complete:released_signature_rejected", eng), format!("intact signature of request {} refused", req));
                }
                if !intact && lib {
                    out.violate(
                        "C16",
                        format!("{}/reject:altered_signature_accepted", eng),
                        format!("altered ({}) signature or message accepted: sig {} (genuine {}) msg {} (genuine {})", how, hex_abbrev(&sig), hex_abbrev(&orig_sig), hex_abbrev(&msg), hex_abbrev(&orig_msg)),
                    );
                }
            }
        }
    }

    // ---- bounded liveness
    let heal_time = if faulty { heal_at } else { 0 };
    for r in 0..nreq as usize {
        if let Some(ts) = first_seen[r] {
            if ts >= heal_time && !answered[r] {
                out.violate(
                    "C16",
                    format!("{}/liveness:request_never_answered", eng),
                    format!("request {} arrived at {}us, after the faults stopped at {}us, and was never answered (no signature released, no None)", r, ts, heal_time),
                );
            }
        }
    }

    // ---- history checks
    // released leaf indices strictly increasing in release order (hence pairwise distinct)
    for w in released.windows(2) {
        if w[1].0 <= w[0].0 {
            out.violate(
                "C16",
                format!("{}/history:leaf_reused_or_out_of_order", eng),
                format!("released leaf sequence is not strictly increasing: {:?}", released.iter().map(|x| x.0).collect::<Vec<_>>()),
            );
            break;
        }
    }
    if crash_rate == 0 && disk_err_rate == 0 {
        // fault-free life: exactly the leaves 0..31 in order, then None for every further request
        let want: Vec<u32> = (0..(1u32 << prm.h)).collect();
        let got: Vec<u32> = released.iter().map(|x| x.0).collect();
        if got != want {
            out.violate("C16", format!("{}/history:fault_free_life_leaves", eng), format!("released leaves {:?}", got));
        }
        if exhausted_seen != nreq - (1 << prm.h) {
            out.violate(
                "C16",
                format!("{}/history:exhaustion_count", eng),
                format!("{} requests, {} got None, expected {}", nreq, exhausted_seen, nreq - (1 << prm.h)),
            );
        }
        out.probe("probe.lms.fault_free_full_life");
    }
    if leaves_signed[..32].iter().all(|x| *x) {
        out.probe("probe.lms.all_32_leaves_signed_in_one_life");
    }
    let _ = SERVICE;
}
