//! Validates the harness's own reference hash implementations against the
//! committed vector file produced by CPython's hashlib.

use crate::refimpl::{blake2s, keccak, sha2};
use crate::util::{hex, J};

fn msg(n: usize) -> Vec<u8> {
    (0..n).map(|i| ((i * 167 + 13) & 0xFF) as u8).collect()
}
fn key(n: usize) -> Vec<u8> {
    (0..n).map(|i| ((i * 31 + 5) & 0xFF) as u8).collect()
}

pub fn run(path: &str) -> Result<usize, String> {
    let s = std::fs::read_to_string(path).map_err(|e| format!("{}: {}", path, e))?;
    let j = J::parse(&s)?;
    let arr = j.as_arr().ok_or("not an array")?;
    let mut n = 0;
    for v in arr {
        let alg = v.get("alg").and_then(|x| x.as_str()).ok_or("alg")?;
        let len = v.get("len").and_then(|x| x.as_u64()).ok_or("len")? as usize;
        let ol = v.get("out_len").and_then(|x| x.as_u64()).unwrap_or(0) as usize;
        let kl = v.get("key_len").and_then(|x| x.as_u64()).unwrap_or(0) as usize;
        let want = v.get("digest").and_then(|x| x.as_str()).ok_or("digest")?;
        let m = msg(len);
        let got = match alg {
            "sha224" => sha2::sha224(&m),
            "sha256" => sha2::sha256(&m),
            "sha384" => sha2::sha384(&m),
            "sha512" => sha2::sha512(&m),
            "sha512_224" => sha2::sha512_224(&m),
            "sha512_256" => sha2::sha512_256(&m),
            "sha3_224" => keccak::sha3_224(&m),
            "sha3_256" => keccak::sha3_256(&m),
            "sha3_384" => keccak::sha3_384(&m),
            "sha3_512" => keccak::sha3_512(&m),
            "shake_128" => keccak::shake128(&m, ol),
            "shake_256" => keccak::shake256(&m, ol),
            "blake2s" => blake2s::blake2s(ol, &key(kl), &m),
            other => return Err(format!("unknown alg {}", other)),
        };
        if hex(&got) != want {
            return Err(format!("reference {} len={} key_len={} out_len={}: got {} want {}", alg, len, kl, ol, hex(&got), want));
        }
        n += 1;
    }
    if n < 5000 {
        return Err(format!("only {} vectors", n));
    }
    Ok(n)
}

/// Validates the harness's RFC 8554 reference model against the published
/// known-answer vectors (RFC 8554 appendix F and the SP 800-208 parameter-set
/// draft), stored in vectors/lms_kat.json.
pub fn run_lms(path: &str) -> Result<usize, String> {
    use crate::refimpl::lms as rl;
    use crate::util::unhex;
    let s = std::fs::read_to_string(path).map_err(|e| format!("{}: {}", path, e))?;
    let j = J::parse(&s)?;
    let arr = j.as_arr().ok_or("not an array")?;
    let mut n = 0;
    for v in arr {
        let gs = |k: &str| v.get(k).and_then(|x| x.as_str()).ok_or(format!("missing {}", k));
        let set = gs("set")?;
        let prm = match set {
            "LMS_SHA256_M32_H5_SHA256_N32_W8" => rl::SHA256_M32_H5,
            "LMS_SHA256_M24_H5_SHA256_N24_W8" => rl::SHA256_M24_H5,
            "LMS_SHAKE_M32_H5_SHAKE_N32_W8" => rl::SHAKE_M32_H5,
            "LMS_SHAKE_M24_H5_SHAKE_N24_W8" => rl::SHAKE_M24_H5,
            o => return Err(format!("unknown set {}", o)),
        };
        let tape = unhex(gs("rng_tape")?).ok_or("hex")?;
        let (id, rest) = tape.split_at(16);
        let (seed, c) = rest.split_at(prm.m);
        let key = rl::RefKey::generate(prm, id, seed);
        if hex(key.root()) != gs("pk_T1")? || hex(id) != gs("pk_I")? {
            return Err(format!("{}: reference root {} != KAT {}", set, hex(key.root()), gs("pk_T1")?));
        }
        let msg = unhex(gs("msg")?).ok_or("hex")?;
        let leaf = v.get("leaf").and_then(|x| x.as_u64()).ok_or("leaf")? as u32;
        let sig = key.sign(leaf, c, &msg);
        if hex(&sig) != gs("sig")? {
            return Err(format!("{}: reference signature differs from the KAT", set));
        }
        if !rl::verify(&prm, id, key.root(), &msg, &sig) {
            return Err(format!("{}: reference verify rejects the KAT signature", set));
        }
        let mut bad = sig.clone();
        bad[40] ^= 1;
        if rl::verify(&prm, id, key.root(), &msg, &bad) || rl::verify(&prm, id, key.root(), &msg[1..], &sig) {
            return Err(format!("{}: reference verify accepts an altered signature/message", set));
        }
        n += 1;
    }
    if n != 4 {
        return Err(format!("{} LMS KATs, expected 4", n));
    }
    Ok(n)
}
