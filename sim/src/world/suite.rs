//! Per-ciphersuite adapters for the FROST world: one trait, implemented five
//! times by macro over crrl's five `frost::*` modules (which all expose the
//! same API on distinct types).

use crate::refimpl::{keccak, sha2};
use crate::rng::SimRng;

pub trait Suite {
    const NAME: &'static str;
    /// Encoded scalar / element lengths on the wire.
    const NS: usize;
    const NE: usize;
    /// Scalars are big-endian on the wire (SEC1 suites).
    const SCALAR_BE: bool;
    type Gsk: Copy;
    type Gpk: Copy;
    type Share: Copy;
    type Spk: Copy;
    type Vss: Copy;
    type Nonce: Copy;
    type Comm: Copy;
    type SigShare: Copy;
    type Sig: Copy;
    type Coord: Copy;

    fn gsk_generate(rng: &mut SimRng) -> Self::Gsk;
    fn gsk_public(k: Self::Gsk) -> Self::Gpk;
    fn gsk_encode(k: Self::Gsk) -> Vec<u8>;
    fn gsk_decode(b: &[u8]) -> Option<Self::Gsk>;
    fn gsk_sign(k: Self::Gsk, rng: &mut SimRng, msg: &[u8]) -> Self::Sig;
    fn gsk_sign_seeded(k: Self::Gsk, seed: &[u8], msg: &[u8]) -> Self::Sig;
    fn gpk_encode(k: Self::Gpk) -> Vec<u8>;
    fn gpk_decode(b: &[u8]) -> Option<Self::Gpk>;
    fn gpk_verify(k: Self::Gpk, s: Self::Sig, msg: &[u8]) -> bool;
    fn gpk_verify_esig(k: Self::Gpk, esig: &[u8], msg: &[u8]) -> bool;
    fn split(rng: &mut SimRng, k: Self::Gsk, t: usize, n: usize) -> (Vec<Self::Share>, Vec<Self::Vss>);
    fn derive_group_info(n: usize, vss: Vec<Self::Vss>) -> (Vec<Self::Spk>, Self::Gpk);
    fn share_encode(s: Self::Share) -> Vec<u8>;
    fn share_decode(b: &[u8]) -> Option<Self::Share>;
    fn share_public(s: Self::Share) -> Self::Spk;
    fn share_verify_split(s: Self::Share, vss: &[Self::Vss]) -> bool;
    fn share_commit(s: Self::Share, rng: &mut SimRng) -> (Self::Nonce, Self::Comm);
    fn share_sign(s: Self::Share, n: Self::Nonce, c: Self::Comm, msg: &[u8], list: &[Self::Comm]) -> Option<Self::SigShare>;
    fn spk_encode(s: Self::Spk) -> Vec<u8>;
    fn spk_decode(b: &[u8]) -> Option<Self::Spk>;
    fn spk_verify_share(s: Self::Spk, ss: Self::SigShare, list: &[Self::Comm], gpk: Self::Gpk, msg: &[u8]) -> bool;
    fn vss_encode_list(v: &[Self::Vss]) -> Vec<u8>;
    fn vss_decode_list(b: &[u8]) -> Option<Vec<Self::Vss>>;
    fn nonce_encode(n: Self::Nonce) -> Vec<u8>;
    fn nonce_decode(b: &[u8]) -> Option<Self::Nonce>;
    fn nonce_commitment(n: Self::Nonce) -> Self::Comm;
    fn comm_encode(c: Self::Comm) -> Vec<u8>;
    fn comm_decode(b: &[u8]) -> Option<Self::Comm>;
    fn comm_encode_list(c: &[Self::Comm]) -> Vec<u8>;
    fn comm_decode_list(b: &[u8]) -> Option<Vec<Self::Comm>>;
    fn sigshare_encode(s: Self::SigShare) -> Vec<u8>;
    fn sigshare_decode(b: &[u8]) -> Option<Self::SigShare>;
    fn sig_encode(s: Self::Sig) -> Vec<u8>;
    fn sig_decode(b: &[u8]) -> Option<Self::Sig>;
    fn coord_new(k: usize, gpk: Self::Gpk) -> Option<Self::Coord>;
    fn coord_choose(c: Self::Coord, comms: &[Self::Comm]) -> Option<Vec<Self::Comm>>;
    fn coord_assemble(c: Self::Coord, shares: &[Self::SigShare], list: &[Self::Comm], pks: &[Self::Spk], msg: &[u8]) -> Option<Self::Sig>;

    /// What a malicious dealer can send: the wire encoding of a VSS commitment list of `t` individually valid
    /// elements whose polynomial *vanishes at identifier k* (a_0 = -sum a_j k^j), so that the evaluation every
    /// verifier performs for signer k is the neutral element.
    fn vss_vanishing_at(rng: &mut SimRng, t: usize, k: u64) -> Vec<u8>;
    /// Wire encoding of (group order - 1), obtained from the library's own
    /// scalar type (no copied constants).
    fn order_minus_one_wire() -> Vec<u8>;
    /// Independent verification of an encoded signature: challenge from the
    /// harness's own hash code, equation checked with plain constant-time
    /// group operations (not `verify_helper_vartime`).
    fn indep_verify(gpk_enc: &[u8], sig_enc: &[u8], msg: &[u8]) -> bool;
    /// Plain RFC 8032 verifier, where the suite has one.
    fn plain_verify(_gpk_enc: &[u8], _sig_enc: &[u8], _msg: &[u8]) -> Option<bool> {
        None
    }
    /// Element encodings that the FROST decoding rules must refuse: neutral,
    /// low-order / off-subgroup, non-canonical, off-curve.
    fn bad_points() -> Vec<Vec<u8>>;
    /// Other encodings of the same element that the underlying curve code
    /// understands but the FROST wire format does not use (SEC1 suites:
    /// uncompressed / hybrid / with a wrong y). FROST decoders must refuse them.
    fn alt_point_encodings(_enc: &[u8]) -> Vec<Vec<u8>> {
        Vec::new()
    }
}

/// hash_to_field-style expansion used by the P-256 and secp256k1 suites
/// (RFC 9380 expand_message_xmd with SHA-256, 48 bytes), on the harness's own
/// SHA-256.
pub fn xmd_sha256_48(dst: &[u8], msg: &[u8]) -> [u8; 48] {
    let mut dst_prime = dst.to_vec();
    dst_prime.push(dst.len() as u8);
    let mut m0 = vec![0u8; 64];
    m0.extend_from_slice(msg);
    m0.extend_from_slice(&[0, 48]);
    m0.push(0);
    m0.extend_from_slice(&dst_prime);
    let b0 = sha2::sha256(&m0);
    let mut m1 = b0.clone();
    m1.push(1);
    m1.extend_from_slice(&dst_prime);
    let b1 = sha2::sha256(&m1);
    let mut m2: Vec<u8> = b0.iter().zip(b1.iter()).map(|(a, b)| a ^ b).collect();
    m2.push(2);
    m2.extend_from_slice(&dst_prime);
    let b2 = sha2::sha256(&m2);
    let mut out = [0u8; 48];
    out[..32].copy_from_slice(&b1);
    out[32..].copy_from_slice(&b2[..16]);
    out
}

fn unhex(s: &str) -> Vec<u8> {
    crate::util::unhex(s).unwrap()
}

macro_rules! impl_suite_common {
    ($m:path) => {
        fn gsk_generate(rng: &mut SimRng) -> Self::Gsk {
            use $m as f;
            f::GroupPrivateKey::generate(rng)
        }
        fn gsk_public(k: Self::Gsk) -> Self::Gpk {
            k.get_public_key()
        }
        fn gsk_encode(k: Self::Gsk) -> Vec<u8> {
            k.encode().to_vec()
        }
        fn gsk_decode(b: &[u8]) -> Option<Self::Gsk> {
            use $m as f;
            f::GroupPrivateKey::decode(b)
        }
        fn gsk_sign(k: Self::Gsk, rng: &mut SimRng, msg: &[u8]) -> Self::Sig {
            k.sign(rng, msg)
        }
        fn gsk_sign_seeded(k: Self::Gsk, seed: &[u8], msg: &[u8]) -> Self::Sig {
            k.sign_seeded(seed, msg)
        }
        fn gpk_encode(k: Self::Gpk) -> Vec<u8> {
            k.encode().to_vec()
        }
        fn gpk_decode(b: &[u8]) -> Option<Self::Gpk> {
            use $m as f;
            f::GroupPublicKey::decode(b)
        }
        fn gpk_verify(k: Self::Gpk, s: Self::Sig, msg: &[u8]) -> bool {
            k.verify(s, msg)
        }
        fn gpk_verify_esig(k: Self::Gpk, esig: &[u8], msg: &[u8]) -> bool {
            k.verify_esig(esig, msg)
        }
        fn split(rng: &mut SimRng, k: Self::Gsk, t: usize, n: usize) -> (Vec<Self::Share>, Vec<Self::Vss>) {
            use $m as f;
            f::KeySplitter::trusted_split(rng, k, t, n)
        }
        fn derive_group_info(n: usize, vss: Vec<Self::Vss>) -> (Vec<Self::Spk>, Self::Gpk) {
            use $m as f;
            f::KeySplitter::derive_group_info(n, vss)
        }
        fn share_encode(s: Self::Share) -> Vec<u8> {
            s.encode().to_vec()
        }
        fn share_decode(b: &[u8]) -> Option<Self::Share> {
            use $m as f;
            f::SignerPrivateKeyShare::decode(b)
        }
        fn share_public(s: Self::Share) -> Self::Spk {
            s.get_public_key()
        }
        fn share_verify_split(s: Self::Share, vss: &[Self::Vss]) -> bool {
            s.verify_split(vss)
        }
        fn share_commit(s: Self::Share, rng: &mut SimRng) -> (Self::Nonce, Self::Comm) {
            s.commit(rng)
        }
        fn share_sign(s: Self::Share, n: Self::Nonce, c: Self::Comm, msg: &[u8], list: &[Self::Comm]) -> Option<Self::SigShare> {
            s.sign(n, c, msg, list)
        }
        fn spk_encode(s: Self::Spk) -> Vec<u8> {
            s.encode().to_vec()
        }
        fn spk_decode(b: &[u8]) -> Option<Self::Spk> {
            use $m as f;
            f::SignerPublicKey::decode(b)
        }
        fn spk_verify_share(s: Self::Spk, ss: Self::SigShare, list: &[Self::Comm], gpk: Self::Gpk, msg: &[u8]) -> bool {
            s.verify_signature_share(ss, list, gpk, msg)
        }
        fn vss_encode_list(v: &[Self::Vss]) -> Vec<u8> {
            use $m as f;
            f::VSSElement::encode_list(v)
        }
        fn vss_decode_list(b: &[u8]) -> Option<Vec<Self::Vss>> {
            use $m as f;
            f::VSSElement::decode_list(b)
        }
        fn nonce_encode(n: Self::Nonce) -> Vec<u8> {
            n.encode().to_vec()
        }
        fn nonce_decode(b: &[u8]) -> Option<Self::Nonce> {
            use $m as f;
            f::Nonce::decode(b)
        }
        fn nonce_commitment(n: Self::Nonce) -> Self::Comm {
            n.get_commitment()
        }
        fn comm_encode(c: Self::Comm) -> Vec<u8> {
            c.encode().to_vec()
        }
        fn comm_decode(b: &[u8]) -> Option<Self::Comm> {
            use $m as f;
            f::Commitment::decode(b)
        }
        fn comm_encode_list(c: &[Self::Comm]) -> Vec<u8> {
            use $m as f;
            f::Commitment::encode_list(c)
        }
        fn comm_decode_list(b: &[u8]) -> Option<Vec<Self::Comm>> {
            use $m as f;
            f::Commitment::decode_list(b)
        }
        fn sigshare_encode(s: Self::SigShare) -> Vec<u8> {
            s.encode().to_vec()
        }
        fn sigshare_decode(b: &[u8]) -> Option<Self::SigShare> {
            use $m as f;
            f::SignatureShare::decode(b)
        }
        fn sig_encode(s: Self::Sig) -> Vec<u8> {
            s.encode().to_vec()
        }
        fn sig_decode(b: &[u8]) -> Option<Self::Sig> {
            use $m as f;
            f::Signature::decode(b)
        }
        fn coord_new(k: usize, gpk: Self::Gpk) -> Option<Self::Coord> {
            use $m as f;
            f::Coordinator::new(k, gpk)
        }
        fn coord_choose(c: Self::Coord, comms: &[Self::Comm]) -> Option<Vec<Self::Comm>> {
            c.choose(comms)
        }
        fn coord_assemble(c: Self::Coord, shares: &[Self::SigShare], list: &[Self::Comm], pks: &[Self::Spk], msg: &[u8]) -> Option<Self::Sig> {
            c.assemble_signature(shares, list, pks, msg)
        }
    };
}

macro_rules! impl_vanishing {
    ($m:ident, $enc:ident) => {
        fn vss_vanishing_at(rng: &mut SimRng, t: usize, k: u64) -> Vec<u8> {
            use crrl::frost::$m::{Point, Scalar};
            let ks = Scalar::from_u64(k);
            let mut a: Vec<Scalar> = Vec::new();
            for _ in 1..t.max(2) {
                a.push(Scalar::decode_reduce(&rng.bytes(48)));
            }
            let mut a0 = Scalar::ZERO;
            let mut kp = ks;
            for aj in a.iter() {
                a0 -= *aj * kp;
                kp *= ks;
            }
            let mut out = Vec::new();
            out.extend_from_slice(&Point::mulgen(&a0).$enc());
            for aj in a.iter() {
                out.extend_from_slice(&Point::mulgen(aj).$enc());
            }
            out
        }
    };
}

macro_rules! suite_types {
    ($m:ident) => {
        type Gsk = crrl::frost::$m::GroupPrivateKey;
        type Gpk = crrl::frost::$m::GroupPublicKey;
        type Share = crrl::frost::$m::SignerPrivateKeyShare;
        type Spk = crrl::frost::$m::SignerPublicKey;
        type Vss = crrl::frost::$m::VSSElement;
        type Nonce = crrl::frost::$m::Nonce;
        type Comm = crrl::frost::$m::Commitment;
        type SigShare = crrl::frost::$m::SignatureShare;
        type Sig = crrl::frost::$m::Signature;
        type Coord = crrl::frost::$m::Coordinator;
    };
}

pub struct Ed25519;
pub struct Ristretto255;
pub struct Ed448;
pub struct P256;
pub struct Secp256k1;

// ------------------------------------------------------------- ed25519

impl Suite for Ed25519 {
    const NAME: &'static str = "ed25519";
    const NS: usize = 32;
    const NE: usize = 32;
    const SCALAR_BE: bool = false;
    suite_types!(ed25519);
    impl_vanishing!(ed25519, encode);
    impl_suite_common!(crrl::frost::ed25519);

    fn order_minus_one_wire() -> Vec<u8> {
        use crrl::frost::ed25519::Scalar;
        (Scalar::ZERO - Scalar::ONE).encode().to_vec()
    }
    fn indep_verify(gpk_enc: &[u8], sig_enc: &[u8], msg: &[u8]) -> bool {
        use crrl::frost::ed25519::{Point, Scalar};
        if gpk_enc.len() != 32 || sig_enc.len() != 64 {
            return false;
        }
        let (pk, r) = match (Point::decode(gpk_enc), Point::decode(&sig_enc[..32])) {
            (Some(a), Some(b)) => (a, b),
            _ => return false,
        };
        let z = match Scalar::decode(&sig_enc[32..]) {
            Some(z) => z,
            None => return false,
        };
        // challenge = SHA-512(R || PK || msg) mod L (RFC 8032 compatible)
        let mut h = sig_enc[..32].to_vec();
        h.extend_from_slice(gpk_enc);
        h.extend_from_slice(msg);
        let c = Scalar::decode_reduce(&sha2::sha512(&h));
        let lhs = Point::mulgen(&z);
        let rhs = r + pk * c;
        lhs.encode() == rhs.encode()
    }
    fn plain_verify(gpk_enc: &[u8], sig_enc: &[u8], msg: &[u8]) -> Option<bool> {
        Some(match crrl::ed25519::PublicKey::decode(gpk_enc) {
            Some(pk) => pk.verify_raw(sig_enc, msg),
            None => false,
        })
    }
    fn bad_points() -> Vec<Vec<u8>> {
        let mut v = vec![
            unhex("0100000000000000000000000000000000000000000000000000000000000000"), // neutral
            unhex("ecffffffffffffffffffffffffffffffffffffffffffffffffffffffffffff7f"), // order 2
            unhex("0000000000000000000000000000000000000000000000000000000000000000"), // order 4
            unhex("0000000000000000000000000000000000000000000000000000000000000080"), // order 4
            unhex("26e8958fc2b227b045c3f489f2ef98f0d5dfac05d3c63339b13802886d53fc05"), // order 8
            unhex("26e8958fc2b227b045c3f489f2ef98f0d5dfac05d3c63339b13802886d53fc85"), // order 8
            unhex("c7176a703d4dd84fba3c0b760d10670f2a2053fa2c39ccc64ec7fd7792ac037a"), // order 8
            unhex("c7176a703d4dd84fba3c0b760d10670f2a2053fa2c39ccc64ec7fd7792ac03fa"), // order 8
            unhex("edffffffffffffffffffffffffffffffffffffffffffffffffffffffffffff7f"), // y = p (non-canonical)
            unhex("ffffffffffffffffffffffffffffffffffffffffffffffffffffffffffffff7f"), // y >= p
            unhex("0100000000000000000000000000000000000000000000000000000000000080"), // x=0 with sign bit (non-canonical neutral)
        ];
        // generator + order-2 point (on curve, not in the prime-order subgroup):
        // B + (0,-1) = (-Bx, -By); encode by negating y and flipping the sign bit.
        v.push(ed25519_gen_plus_order2());
        v
    }
}

fn ed25519_gen_plus_order2() -> Vec<u8> {
    // y' = p - By, sign' = !sign(Bx). By = 4/5: encoding of B is 5866..66.
    let b = unhex("5866666666666666666666666666666666666666666666666666666666666666");
    // p = 2^255 - 19, little-endian
    let mut p = vec![0xffu8; 32];
    p[0] = 0xed;
    p[31] = 0x7f;
    let mut y = vec![0u8; 32];
    let mut borrow = 0i32;
    for i in 0..32 {
        let d = p[i] as i32 - b[i] as i32 - borrow;
        if d < 0 {
            y[i] = (d + 256) as u8;
            borrow = 1;
        } else {
            y[i] = d as u8;
            borrow = 0;
        }
    }
    // sign of Bx is 0, so x' = -Bx has sign 1
    y[31] |= 0x80;
    y
}

// ------------------------------------------------------------- ristretto255

impl Suite for Ristretto255 {
    const NAME: &'static str = "ristretto255";
    const NS: usize = 32;
    const NE: usize = 32;
    const SCALAR_BE: bool = false;
    suite_types!(ristretto255);
    impl_vanishing!(ristretto255, encode);
    impl_suite_common!(crrl::frost::ristretto255);

    fn order_minus_one_wire() -> Vec<u8> {
        use crrl::frost::ristretto255::Scalar;
        (Scalar::ZERO - Scalar::ONE).encode().to_vec()
    }
    fn indep_verify(gpk_enc: &[u8], sig_enc: &[u8], msg: &[u8]) -> bool {
        use crrl::frost::ristretto255::{Point, Scalar};
        if gpk_enc.len() != 32 || sig_enc.len() != 64 {
            return false;
        }
        let (pk, r) = match (Point::decode(gpk_enc), Point::decode(&sig_enc[..32])) {
            (Some(a), Some(b)) => (a, b),
            _ => return false,
        };
        let z = match Scalar::decode(&sig_enc[32..]) {
            Some(z) => z,
            None => return false,
        };
        let mut h = b"FROST-RISTRETTO255-SHA512-v1chal".to_vec();
        h.extend_from_slice(&sig_enc[..32]);
        h.extend_from_slice(gpk_enc);
        h.extend_from_slice(msg);
        let c = Scalar::decode_reduce(&sha2::sha512(&h));
        let lhs = Point::mulgen(&z);
        let rhs = r + pk * c;
        lhs.encode() == rhs.encode()
    }
    fn bad_points() -> Vec<Vec<u8>> {
        vec![
            unhex("0000000000000000000000000000000000000000000000000000000000000000"), // neutral
            // RFC 9496 A.2 invalid encodings
            unhex("00ffffffffffffffffffffffffffffffffffffffffffffffffffffffffffffff"),
            unhex("ffffffffffffffffffffffffffffffffffffffffffffffffffffffffffffff7f"),
            unhex("f3ffffffffffffffffffffffffffffffffffffffffffffffffffffffffffff7f"),
            unhex("edffffffffffffffffffffffffffffffffffffffffffffffffffffffffffff7f"),
            unhex("0100000000000000000000000000000000000000000000000000000000000000"),
            unhex("01ffffffffffffffffffffffffffffffffffffffffffffffffffffffffffff7f"),
            unhex("ed57ffd8c914fb201471d1c3d245ce3c746fcbe63a3679d51b6a516ebebe0e20"),
            unhex("c34c4e1826e5d403b78e246e88aa051c36ccf0aafebffe137d148a2bf9104562"),
            unhex("26948d35ca62e643e26a83177332e6b6afeb9d08e4268b650f1f5bbd8d81d371"),
            unhex("4eac077a713c57b4f4397629a4145982c661f48044dd3f96427d40b147d9742f"),
            unhex("de6a7b00deadc788eb6b6c8d20c0ae96c2f2019078fa604fee5b87d6e989ad7b"),
        ]
    }
}

// ------------------------------------------------------------- ed448

impl Suite for Ed448 {
    const NAME: &'static str = "ed448";
    const NS: usize = 57;
    const NE: usize = 57;
    const SCALAR_BE: bool = false;
    suite_types!(ed448);
    impl_vanishing!(ed448, encode);
    impl_suite_common!(crrl::frost::ed448);

    fn order_minus_one_wire() -> Vec<u8> {
        use crrl::frost::ed448::Scalar;
        let mut v = (Scalar::ZERO - Scalar::ONE).encode().to_vec();
        v.push(0);
        v
    }
    fn indep_verify(gpk_enc: &[u8], sig_enc: &[u8], msg: &[u8]) -> bool {
        use crrl::frost::ed448::{Point, Scalar};
        if gpk_enc.len() != 57 || sig_enc.len() != 114 {
            return false;
        }
        let (pk, r) = match (Point::decode(gpk_enc), Point::decode(&sig_enc[..57])) {
            (Some(a), Some(b)) => (a, b),
            _ => return false,
        };
        if sig_enc[113] != 0 {
            return false;
        }
        let z = match Scalar::decode(&sig_enc[57..113]) {
            Some(z) => z,
            None => return false,
        };
        let mut h = b"SigEd448".to_vec();
        h.extend_from_slice(&[0, 0]);
        h.extend_from_slice(&sig_enc[..57]);
        h.extend_from_slice(gpk_enc);
        h.extend_from_slice(msg);
        let c = Scalar::decode_reduce(&keccak::shake256(&h, 114));
        let lhs = Point::mulgen(&z);
        let rhs = r + pk * c;
        lhs.encode() == rhs.encode()
    }
    fn plain_verify(gpk_enc: &[u8], sig_enc: &[u8], msg: &[u8]) -> Option<bool> {
        Some(match crrl::ed448::PublicKey::decode(gpk_enc) {
            Some(pk) => pk.verify_raw(sig_enc, msg),
            None => false,
        })
    }
    fn bad_points() -> Vec<Vec<u8>> {
        let mut neutral = vec![0u8; 57];
        neutral[0] = 1;
        // y = p - 1 = -1: order 2
        let mut o2 = vec![0xffu8; 57];
        o2[0] = 0xfe;
        o2[28] = 0xfe;
        o2[56] = 0;
        // y = 0: order 4 (both signs)
        let o4a = vec![0u8; 57];
        let mut o4b = vec![0u8; 57];
        o4b[56] = 0x80;
        // y = p (non-canonical zero)
        let mut yp = vec![0xffu8; 57];
        yp[28] = 0xfe;
        yp[56] = 0;
        // all ones in the 56 low bytes: y >= p
        let mut big = vec![0xffu8; 57];
        big[56] = 0;
        // stray bits in the last byte
        let mut stray = neutral.clone();
        stray[56] = 0x01;
        vec![neutral, o2, o4a, o4b, yp, big, stray]
    }
}

// ------------------------------------------------------------- p256

impl Suite for P256 {
    const NAME: &'static str = "p256";
    const NS: usize = 32;
    const NE: usize = 33;
    const SCALAR_BE: bool = true;
    suite_types!(p256);
    impl_vanishing!(p256, encode_compressed);
    impl_suite_common!(crrl::frost::p256);

    fn order_minus_one_wire() -> Vec<u8> {
        use crrl::frost::p256::Scalar;
        let mut v = (Scalar::ZERO - Scalar::ONE).encode().to_vec();
        v.reverse();
        v
    }
    fn indep_verify(gpk_enc: &[u8], sig_enc: &[u8], msg: &[u8]) -> bool {
        use crrl::frost::p256::{Point, Scalar};
        if gpk_enc.len() != 33 || sig_enc.len() != 65 {
            return false;
        }
        let (pk, r) = match (Point::decode(gpk_enc), Point::decode(&sig_enc[..33])) {
            (Some(a), Some(b)) => (a, b),
            _ => return false,
        };
        let mut zb = sig_enc[33..].to_vec();
        zb.reverse();
        let z = match Scalar::decode(&zb) {
            Some(z) => z,
            None => return false,
        };
        let mut h = sig_enc[..33].to_vec();
        h.extend_from_slice(gpk_enc);
        h.extend_from_slice(msg);
        let mut x = xmd_sha256_48(b"FROST-P256-SHA256-v1chal", &h);
        x.reverse(); // big-endian integer -> little-endian for decode_reduce
        let c = Scalar::decode_reduce(&x);
        let lhs = Point::mulgen(&z);
        let rhs = r + pk * c;
        lhs.encode_compressed() == rhs.encode_compressed()
    }
    fn alt_point_encodings(enc: &[u8]) -> Vec<Vec<u8>> {
        match crrl::p256::Point::decode(enc) {
            Some(p) => {
                let u = p.encode_uncompressed().to_vec();
                let mut hyb = u.clone();
                hyb[0] = 0x06 | (u[64] & 1);
                let mut wrong_y = u.clone();
                wrong_y[64] ^= 1;
                vec![u, hyb, wrong_y, vec![0u8]]
            }
            None => Vec::new(),
        }
    }
    fn bad_points() -> Vec<Vec<u8>> {
        let mut v = Vec::new();
        v.push(vec![0u8; 33]); // first byte 00, 33 bytes
        let mut a = vec![0xffu8; 33];
        a[0] = 0x02;
        v.push(a); // x >= p
        let mut b = vec![0u8; 33];
        b[0] = 0x04;
        v.push(b); // wrong tag
        let mut c = vec![0u8; 33];
        c[0] = 0x02;
        c[32] = 7;
        v.push(c); // x = 7: x^3-3x+b is not a square mod p
        v.push(vec![0u8; 1]); // one-byte point at infinity
        v
    }
}

// ------------------------------------------------------------- secp256k1

impl Suite for Secp256k1 {
    const NAME: &'static str = "secp256k1";
    const NS: usize = 32;
    const NE: usize = 33;
    const SCALAR_BE: bool = true;
    suite_types!(secp256k1);
    impl_vanishing!(secp256k1, encode_compressed);
    impl_suite_common!(crrl::frost::secp256k1);

    fn order_minus_one_wire() -> Vec<u8> {
        use crrl::frost::secp256k1::Scalar;
        let mut v = (Scalar::ZERO - Scalar::ONE).encode().to_vec();
        v.reverse();
        v
    }
    fn indep_verify(gpk_enc: &[u8], sig_enc: &[u8], msg: &[u8]) -> bool {
        use crrl::frost::secp256k1::{Point, Scalar};
        if gpk_enc.len() != 33 || sig_enc.len() != 65 {
            return false;
        }
        let (pk, r) = match (Point::decode(gpk_enc), Point::decode(&sig_enc[..33])) {
            (Some(a), Some(b)) => (a, b),
            _ => return false,
        };
        let mut zb = sig_enc[33..].to_vec();
        zb.reverse();
        let z = match Scalar::decode(&zb) {
            Some(z) => z,
            None => return false,
        };
        let mut h = sig_enc[..33].to_vec();
        h.extend_from_slice(gpk_enc);
        h.extend_from_slice(msg);
        let mut x = xmd_sha256_48(b"FROST-secp256k1-SHA256-v1chal", &h);
        x.reverse();
        let c = Scalar::decode_reduce(&x);
        let lhs = Point::mulgen(&z);
        let rhs = r + pk * c;
        lhs.encode_compressed() == rhs.encode_compressed()
    }
    fn alt_point_encodings(enc: &[u8]) -> Vec<Vec<u8>> {
        match crrl::secp256k1::Point::decode(enc) {
            Some(p) => {
                let u = p.encode_uncompressed().to_vec();
                let mut hyb = u.clone();
                hyb[0] = 0x06 | (u[64] & 1);
                let mut wrong_y = u.clone();
                wrong_y[64] ^= 1;
                vec![u, hyb, wrong_y, vec![0u8]]
            }
            None => Vec::new(),
        }
    }
    fn bad_points() -> Vec<Vec<u8>> {
        let mut v = Vec::new();
        v.push(vec![0u8; 33]);
        let mut a = vec![0xffu8; 33];
        a[0] = 0x03;
        v.push(a);
        let mut b = vec![0u8; 33];
        b[0] = 0x05;
        v.push(b);
        let mut c = vec![0u8; 33];
        c[0] = 0x02;
        c[32] = 5;
        v.push(c); // x = 5: 5^3+7 = 132 (checked at self-test: must not decode)
        v.push(vec![0u8; 1]);
        v
    }
}
